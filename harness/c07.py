"""C07 - numba = numpy; only_update_hydraulic_matrix / reuse_internal_data neutral.
(a) designed-exact family under use_numba / matrix-update / reuse variants (same exact prediction);
(b) MC_Hist histories with matrix-update and reuse options, load edits and legitimate reuse across calls, each run compared
    bit-exactly with the same call on a fresh net (Trace_Hist)."""
import collections, json, random, time
from . import core, ref, c12, tlc
from .c05 import gen_hist

RULE = ("designed liquid scenarios solved with numba kernels, with matrix-update and with reused internal data; plus call histories over "
        "{plain, update, reuse} x load edits x structural edits on real nets compared with fresh-net runs; non-trivial = >= 3 junctions")


def hist_part(V, tr, sd):
    rnd = random.Random(sd)
    sh = core.spec_hash("MC_Hist")
    h3 = core.cached("c12h3B" + sh, lambda: gen_hist(dict(c12.HIST_B, MaxOps="= 3"))[1])
    h3 = [h for h in h3 if any(o["op"] == "run" and o["matrix"] != "plain" for o in h)]
    if tr == "quick":
        h3 = rnd.sample(h3, min(len(h3), 220))
    h5 = core.cached("c07h5_%d_%s" % (sd, tr) + sh, lambda: gen_hist(
        dict(c12.HIST_B, MaxOps="= 5"), simulate="num=%d" % (60 if tr == "quick" else 1500), depth=6, seed=sd + 31)[1])
    hs = h3 + h5
    jobs = [{"id": "%s%d" % (n[0], i), "net": n, "hist": h} for i, h in enumerate(hs) for n in ("branched", "gas", "valved")]
    cases = core.pmap(c12.replay_history, jobs, chunksize=4)
    by_id = {c["id"]: c for c in cases}
    res, fails = c12.validate(cases)
    for f in fails:
        for cl in f["clauses"]:
            V.report(cl[0].replace("C12.", "C07."), cl[1], by_id[f["id"]], text="event=%s case=%s" % (f["ev"], f["id"]))
    runs = sum(1 for c in cases for e in c["events"] if e["op"] == "run")
    return {"histories_with_update_or_reuse": len(cases), "history_runs": runs}


def main():
    V = core.Verdicts("C07")
    extra = hist_part(V, core.tier(), core.seed())
    from . import gas, therm
    extra.update(gas.gas_part(V, "C07", core.tier(), core.seed(), [{"numba": True}]))
    # arbitrary nets (library water in sequential mode / lgas, different junction temperatures, trickle flows): numba = numpy cell by cell
    from . import c01
    extra.update(c01.relational_part(V, "C07", "numba", core.tier(), core.seed(), workers=6, ncap=260 if core.tier() == "quick" else 4000))
    rc1 = V.finish()
    rc2 = ref.run_check("C07", RULE, nmax_quick=240, workers=4, extra_cov=extra, prior_violations=len(V.violations))
    return 1 if (rc1 or rc2) else 0


def replay(path):
    rec = json.load(open(path))
    c = rec["case"]
    if "hist" in c:
        case = c12.replay_history({"id": c["id"], "net": c["net"], "hist": c["hist"]})
        res, fails = c12.validate([case])
        for f in fails:
            print("FAIL", f)
        return 1 if fails else 0
    return ref.replay_file("C07", path)
