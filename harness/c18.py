"""C18 - the topology graph agrees with the solver about what is connected."""
import collections, json, random, time, logging, warnings
from . import core, tlc, c04, c01, pf, netio

warnings.filterwarnings("ignore")
logging.disable(logging.CRITICAL)


def run_case(job):
    import networkx as nx
    import pandapipes as pp
    import pandapipes.topology as top
    try:
        net = netio.build(job["an"], fluid="water", params=job.get("params"))
    except Exception as e:  # noqa
        return {"id": job["id"], "skip": "build:%s" % type(e).__name__}
    case = {"id": job["id"], "multi": bool(job.get("multi", True)), "graph_exc": "",
            "graph": {"nodes": [], "edges": [], "components": []}, "unsupplied": [], "dist": [], "dist_src": -1,
            "dist_srcs": [], "dist_multi": []}
    try:
        mg = top.create_nxgraph(net, multi=case["multi"])
        case["graph"]["nodes"] = [int(n) for n in mg.nodes()]
        if case["multi"]:
            for u, v, key, data in mg.edges(keys=True, data=True):
                case["graph"]["edges"].append({"u": int(u), "v": int(v), "tbl": str(key[0]), "lab": int(key[1]),
                                               "w": int(round(float(data.get("weight", 0)) * 1000))})
        else:
            for u, v, data in mg.edges(data=True):
                key = data.get("key", ("?", -1))
                case["graph"]["edges"].append({"u": int(u), "v": int(v), "tbl": str(key[0]), "lab": int(key[1]),
                                               "w": int(round(float(data.get("weight", 0)) * 1000))})
        case["graph"]["components"] = [sorted(int(x) for x in cc) for cc in nx.connected_components(mg)]
        case["unsupplied"] = sorted(int(x) for x in top.unsupplied_junctions(net))
        svc = [int(j) for j in net.junction.index[net.junction.in_service.values]]
        if svc:
            src = svc[job.get("k", 0) % len(svc)]
            d = top.calc_distance_to_junction(net, src)
            case["dist_src"] = src
            case["dist"] = [[int(k), int(round(float(v) * 1000))] for k, v in d.items()]
            srcs = sorted({src, svc[(job.get("k", 0) // 3) % len(svc)]})
            d2 = top.calc_distance_to_junctions(net, srcs)
            case["dist_srcs"] = srcs
            case["dist_multi"] = [[int(k), int(round(float(v) * 1000))] for k, v in d2.items()]
    except Exception as e:  # noqa
        case["graph_exc"] = "%s:%s" % (type(e).__name__, str(e)[:60])
    # a second multigraph with non-default include_* / respect_status_* arguments (seeded by the case)
    import random
    rnd = random.Random(job.get("k", 0) * 7 + 1)
    KW = {"pipe": "pipes", "valve": "valves", "pump": "pumps", "press_control": "press_controls", "flow_control": "flow_controls",
          "heat_consumer": "heat_consumers", "heat_exchanger": "heat_exchangers", "circ_pump_mass": "mass_circ_pumps",
          "circ_pump_pressure": "pressure_circ_pumps"}
    present = sorted({e["tbl"] for e in job["an"]["E"]} & set(KW))
    excl = sorted(t for t in present if rnd.random() < 0.25)
    nrs = sorted(t for t in present if rnd.random() < 0.35)
    rsj = rnd.random() < 0.7
    kw = {"include_%s" % KW[t]: False for t in excl}
    kw.update({"respect_status_%s" % KW[t]: False for t in nrs})
    case["flags"] = {"excl": excl, "nrs": nrs, "rsj": rsj}
    case["fgraph"], case["fgraph_exc"] = {"nodes": [], "edges": []}, ""
    try:
        fg = top.create_nxgraph(net, multi=True, respect_status_junctions=rsj, **kw)
        case["fgraph"]["nodes"] = [int(n) for n in fg.nodes()]
        for u, v, key, data in fg.edges(keys=True, data=True):
            case["fgraph"]["edges"].append({"u": int(u), "v": int(v), "tbl": str(key[0]), "lab": int(key[1])})
    except Exception as e:  # noqa
        case["fgraph_exc"] = "%s:%s" % (type(e).__name__, str(e)[:60])
    outcome = pf.run_pipeflow(net, dict(c04.PF_OPTS))
    case["outcome"] = outcome
    an = netio.project(net)
    for e in an["E"]:
        e["len"] = int(round(float(net.pipe.loc[e["lab"], "length_km"]) * 1000)) if e["tbl"] == "pipe" else 0
    case["net"] = an
    return case


def validate(cases):
    sc = core.Scratch()
    try:
        p = sc.path("trace.ndjson")
        core.write_ndjson(p, cases)
        res = tlc.run("Trace_Graph", env={"TRACE_FILE": p}, check=True, timeout=3000)
        s = res.by_tag("SUMMARY")
        if not s or s[0]["cases"] != len(cases):
            raise tlc.TLCError("trace not consumed: %s" % s)
        return res, res.by_tag("FAIL")
    finally:
        sc.cleanup()


EMIT = dict(MaxJ="= 4", MaxE="= 4", MaxN="= 2", MaxPV="= 2", Kinds="<- KindsAll", NKinds="<- NKindsAll", TogJ="= FALSE")
EXH = dict(MaxJ="= 2", MaxE="= 1", MaxN="= 1", MaxPV="= 1", Kinds="<- KindsAll", NKinds="<- NKindsAll", TogJ="= FALSE")


def main():
    t0 = time.time()
    tr, sd = core.tier(), core.seed()
    V = core.Verdicts("C18")
    rnd = random.Random(sd)
    mc_states = mc_trans = 0
    for consts in c04.MODEL_CFG[tr][:1]:
        r = c04.model_check(consts, workers=core.nworkers())
        mc_states += r.distinct
        mc_trans += r.generated
    r1, n1 = c04.gen_nets(EXH, timeout=600)
    r2, n2 = c04.gen_nets(EMIT, simulate="num=%d" % (50 if tr == "quick" else 800), depth=18, seed=900 + sd, timeout=1200)
    cap = 900 if tr == "quick" else 30000
    if len(n2) > cap:
        n2 = rnd.sample(n2, cap)
    def with_consistent_outage(an, k):
        """the junction with the k-th label goes out of service together with everything attached to it (consistent flags)"""
        import copy
        an = copy.deepcopy(an)
        labs = sorted(j["lab"] for j in an["J"])
        off = labs[k % len(labs)]
        for j in an["J"]:
            if j["lab"] == off:
                j["svc"] = False
        gone = set()
        for e in an["E"]:
            is_pv = e["tbl"] == "valve" and e["et"] == "pi"
            if e["a"] == off or (not is_pv and e["b"] == off) or (e["tbl"] == "press_control" and e["cj"] == off):
                e["svc"] = False
                if e["tbl"] == "pipe":
                    gone.add(e["lab"])
        for e in an["E"]:
            if e["tbl"] == "valve" and e["et"] == "pi" and e["b"] in gone:
                e["svc"] = False
        for q in an["N"]:
            if q["j"] == off:
                q["svc"] = False
        return an
    jobs = [{"id": "n%d" % i, "an": n["net"], "params": c01.row_params(n["net"]), "multi": (i % 4 != 0), "k": i}
            for i, n in enumerate(n1 + n2)]
    # every third larger net also with one junction out of service together with all its elements (1-based labels: label != row position)
    jobs += [{"id": "o%d" % i, "an": with_consistent_outage(n["net"], i), "params": c01.row_params(n["net"]), "multi": (i % 4 != 0), "k": i}
             for i, n in enumerate(n2) if i % 3 == 0 and len(n["net"]["J"]) >= 3]
    def with_parallel_pipe(an):
        """a second, longer pipe between the junctions of the first in-service pipe (parallel edges: shortest paths take the shorter one)"""
        import copy
        an = copy.deepcopy(an)
        pipes = [e for e in an["E"] if e["tbl"] == "pipe" and e["svc"]]
        if not pipes:
            return None
        p0 = pipes[0]
        an["E"].append(dict(p0, lab=max(e["lab"] for e in an["E"] if e["tbl"] == "pipe") + 1))
        return an
    for i, n in enumerate(n2):
        if i % 4 == 1:
            a2 = with_parallel_pipe(n["net"])
            if a2 is not None:
                prm = c01.row_params(a2)
                prm[("pipe", a2["E"][-1]["lab"])] = {"length_km": 0.9}
                jobs.append({"id": "p%d" % i, "an": a2, "params": prm, "multi": True, "k": i})
    cases = [c for c in core.pmap(run_case, jobs, chunksize=16) if "skip" not in c]
    by_id = {c["id"]: c for c in cases}
    res, fails = validate(cases)
    cc = collections.Counter()
    for f in fails:
        for cl in f["clauses"]:
            cc[cl[0]] += 1
            V.report(cl[0], cl[1], by_id[f["id"]], text="detail=%s case=%s" % (cl[2:], f["id"]))
    inscope = sum(1 for c in cases if all(not ((e["tbl"] == "flow_control" and e["ca"]) or e["tbl"] in ("heat_consumer", "press_control"))
                                          for e in c["net"]["E"]))
    cov = {"states": mc_states, "transitions": mc_trans, "traces_validated_against_impl": len(cases),
           "samples": [{k: cases[len(cases) // 2][k] for k in ("net", "graph", "unsupplied", "dist", "outcome")}],
           "nets_exhaustive_small": len(n1), "nets_simulated": len(n2), "nets_in_graph_vs_solver_scope": inscope,
           "simple_graph_cases": sum(1 for c in cases if not c["multi"]),
           "failing_clause_counts": dict(cc), "trace_spec_states": res.distinct,
           "evaluations": len(cases), "distinct_nontrivial": sum(1 for c in cases if len(c["graph"]["edges"]) >= 2),
           "rule": "distinct nets emitted by TLC from the connectivity model (consistent junction flags); non-trivial = graph with >= 2 edges"}
    rc = V.finish()
    core.write_evidence("C18", "model_checking", cov, time.time() - t0, len(V.violations),
                        assumptions=["per net one seeded random combination of include_* / respect_status_* / respect_status_junctions arguments (multigraph) "
                                     "in addition to the defaults; weighting_* arguments other than pipe length are not exercised",
                                     "graph-vs-solver clause only on component mixes without active flow controllers, heat consumers and pressure "
                                     "controllers (where the two notions are not meant to coincide)"])
    print("C18 %s: model states=%d, nets=%d (in graph-vs-solver scope %d), violations=%d, known=%d, %.0fs"
          % (tr, mc_states, len(cases), inscope, len(V.violations), len(V.known), time.time() - t0))
    return rc


def replay(path):
    rec = json.load(open(path))
    c = rec["case"]
    an = {"J": [dict(lab=j["lab"], svc=j["svc"]) for j in c["net"]["J"]],
          "E": [{k: e[k] for k in ("tbl", "lab", "a", "b", "et", "svc", "ca", "cj", "typ", "sec")} for e in c["net"]["E"]],
          "N": [{k: n[k] for k in ("tbl", "lab", "j", "svc", "typ")} for n in c["net"]["N"]]}
    case = run_case({"id": c["id"], "an": an, "params": c01.row_params(an), "multi": c["multi"], "k": 0})
    res, fails = validate([case])
    for f in fails:
        print("FAIL", f)
    return 1 if fails else 0
