"""C03 - prescribed pressures, flows, lifts are met: designed-exact family (feeder mean pressure, scaled loads, feed-in)
and TLC-generated nets of all component kinds (set-point clauses of Trace_PF)."""
import json, time
from . import core, ref, c01

RULE = ("designed liquid scenarios (one or two ext_grids on the feeder junction -> mean pressure; demands; feed-in) + TLC-generated nets with "
        "flow controllers, pressure controllers, both circulation pumps, compressors between junctions at different heights, several feeders per junction; non-trivial = >= 3 junctions")


def main():
    V = core.Verdicts("C03")
    extra = c01.generic_part(V, core.tier(), core.seed() + 17, checks=("C03",))
    # nets dense in controllers: several pressure / flow controllers per junction, in and out of service
    ctl = dict(MaxJ="= 3", MaxE="= 4", MaxN="= 2", MaxPV="= 0", Kinds="<- KindsCtl", NKinds="<- NKindsCore", TogJ="= FALSE")
    e2 = c01.generic_part(V, core.tier(), core.seed() + 29, checks=("C03",), emit=ctl, cap_quick=600)
    extra.update({k + "_controller_nets": v for k, v in e2.items()})
    # gas nets with compressors and junctions at different heights (absolute pressure ratio with the ambient pressure of each end)
    gasc = dict(MaxJ="= 4", MaxE="= 4", MaxN="= 3", MaxPV="= 0", Kinds="<- KindsGas", NKinds="<- NKindsCore", TogJ="= FALSE")
    e3 = c01.generic_part(V, core.tier(), core.seed() + 41, checks=("C03",), emit=gasc, fluid="lgas", heights=True, cap_quick=600)
    extra.update({k + "_compressor_nets": v for k, v in e3.items()})
    # nets dense in feeders: up to four external grids, several on one junction in every table order (mean of their pressures)
    feed = dict(MaxJ="= 3", MaxE="= 2", MaxN="= 4", MaxPV="= 0", Kinds="<- KindsPipe", NKinds="<- NKindsFeed", TogJ="= FALSE")
    e4 = c01.generic_part(V, core.tier(), core.seed() + 53, checks=("C03",), emit=feed, fluid="water", cap_quick=600)
    extra.update({k + "_feeder_nets": v for k, v in e4.items()})
    rc1 = V.finish()
    rc2 = ref.run_check("C03", RULE, extra_cov=extra, prior_violations=len(V.violations))
    return 1 if (rc1 or rc2) else 0


def replay(path):
    rec = json.load(open(path))
    if "net" in rec["case"]:
        from . import c04, pf
        c = rec["case"]
        an = {"J": [dict(lab=j["lab"], svc=j["svc"]) for j in c["net"]["J"]],
              "E": [{k: e[k] for k in ("tbl", "lab", "a", "b", "et", "svc", "ca", "cj", "typ", "sec")} for e in c["net"]["E"]],
              "N": [{k: n[k] for k in ("tbl", "lab", "j", "svc", "typ")} for n in c["net"]["N"]]}
        case = pf.run_case_prune({"id": c["id"], "an": an, "opts": c04.PF_OPTS, "check": ["C03"], "prune": False})
        res, fails = c04.validate([case])
        for f in fails:
            print("FAIL", f)
        return 1 if fails else 0
    return ref.replay_file("C03", path)
