"""Multi-energy control loops with several controllers on levels / orders (spec/MC_MultiCtl.tla, Trace_MultiCtl.tla); part of C20."""
import collections, copy, json, os, random, logging, warnings
from fractions import Fraction
import numpy as np
from . import core, tlc
from .c19 import rat_round
from . import c20 as B

warnings.filterwarnings("ignore")
logging.disable(logging.CRITICAL)
H1, H2 = Fraction(10), Fraction(20)          # heating values of the two designed gases (kWh/kg)
EFF = {"P2G": Fraction(1, 2), "G2P": Fraction(3, 5), "G2G": Fraction(3, 4)}
# element rows (net, table, index, column) and the base / set inputs (value, scaling)
ELEM = {"power.load": ("power", "load", 6), "power.sgen": ("power", "sgen", 9), "gas.sink": ("gas", "sink", 2),
        "gas.source": ("gas", "source", 5), "gas2.source": ("gas2", "source", 5)}
BASE = {"power.load": (Fraction(1, 4), Fraction(2)), "gas.sink": (Fraction(1, 50), Fraction(3, 2))}
SETV = {"SETL": Fraction(3, 4), "SETS": Fraction(1, 20)}
IO = {"P2G": ("power.load", "gas.source"), "G2P": ("gas.sink", "power.sgen"), "G2G": ("gas.sink", "gas2.source"),
      "SETS": ("", "gas.sink"), "SETL": ("", "power.load")}


def col(table):
    return "p_mw" if table in ("load", "sgen") else "mdot_kg_per_s"


def q(fr):
    return [fr.numerator, fr.denominator]


def run_case(job):
    import pandapipes as pp
    import pandapower as ppw
    from pandapipes.multinet.create_multinet import create_empty_multinet, add_nets_to_multinet
    from pandapipes.multinet.control.run_control_multinet import run_control
    import pandapipes.multinet.control.controller.multinet_control as mc
    ctrls = job["ctrls"]
    case = {"id": job["id"], "ctrls": ctrls, "raised": "", "written": [], "nets": [], "multinet_converged": False}
    try:
        mn = create_empty_multinet("m")
        nets = {"power": B.power_net(), "gas": B.gas_net(H1, "a"), "gas2": B.gas_net(H2, "b")}
        add_nets_to_multinet(mn, **nets)
        for e, (v, sc) in BASE.items():
            n, t, i = ELEM[e]
            nets[n][t].loc[i, [col(t), "scaling"]] = float(v), float(sc)
        Setter = B.setter_controller()
        for c in ctrls:
            k, lv, od = c["kind"], int(c["level"]), int(c["order"])
            if k == "P2G":
                mc.P2GControlMultiEnergy(mn, 6, 5, float(EFF[k]), name_power_net="power", name_gas_net="gas", level=lv, order=od)
            elif k == "G2P":
                mc.G2PControlMultiEnergy(mn, 9, 2, float(EFF[k]), name_power_net="power", name_gas_net="gas", level=lv, order=od)
            elif k == "G2G":
                mc.GasToGasConversion(mn, 2, 5, float(EFF[k]), name_gas_net_from="gas", name_gas_net_to="gas2", level=lv, order=od)
            elif k == "SETS":
                Setter(nets["gas"], "sink", "mdot_kg_per_s", [2], [float(SETV[k])], level=lv, order=od)
            elif k == "SETL":
                Setter(nets["power"], "load", "p_mw", [6], [float(SETV[k])], level=lv, order=od)
        before = {n: copy.deepcopy(nets[n]) for n in nets}
        run_control(mn)
        # what each coupling controller wrote, next to the final input of its source element
        for c in ctrls:
            k = c["kind"]
            if not IO[k][0]:
                continue
            sn, st, si = ELEM[IO[k][0]]
            tn, tt, ti = ELEM[IO[k][1]]
            case["written"].append({"kind": k, "val": rat_round(float(nets[tn][tt].loc[ti, col(tt)])),
                                    "inp": rat_round(float(nets[sn][st].loc[si, col(st)])), "sc": rat_round(float(nets[sn][st].loc[si, "scaling"])),
                                    "eff": q(EFF[k]), "h": q(H1), "h2": q(H2)})
        # every member net: stored results = stand-alone calculation on a fresh copy carrying the final inputs
        for name, net in nets.items():
            fresh = copy.deepcopy(before[name])
            if "controller" in fresh and len(fresh.controller):
                fresh.controller.drop(fresh.controller.index, inplace=True)
            for e, (n, t, i) in ELEM.items():
                if n == name:
                    fresh[t].loc[i, col(t)] = nets[n][t].loc[i, col(t)]
            try:
                if name == "power":
                    ppw.runpp(fresh)
                    sa, cp = B.power_results(fresh), B.power_results(net)
                else:
                    pp.pipeflow(fresh)
                    sa, cp = B.gas_results(fresh), B.gas_results(net)
                conv = bool(net.converged)
            except Exception:  # noqa
                sa, cp, conv = "raised", "x", False
            case["nets"].append({"net": name, "coupled": cp, "standalone": sa, "converged": conv})
        case["multinet_converged"] = bool(mn.converged) if hasattr(mn, "converged") else bool(all(bool(n.converged) for n in nets.values()))
    except Exception as e:  # noqa
        case["raised"] = type(e).__name__
    return case


def configs():
    sh = core.spec_hash("PPMultiCtl", "MC_MultiCtl")

    def emit():
        cfg = "_mctl_%d.cfg" % os.getpid()
        with open(os.path.join(tlc.SPEC_DIR, cfg), "w") as f:
            f.write('SPECIFICATION Spec\nCONSTANTS\n  Kinds = {"P2G", "G2P", "G2G", "SETS", "SETL"}\n  Levels = {0, 1}\n  Orders = {0, 1, 2}\n'
                    '  MaxCtrl = 3\n  MaxIter = 3\n  Relevant = "named"\n  EmitOn = TRUE\nINVARIANT Emit\nCHECK_DEADLOCK FALSE\n')
        try:
            r = tlc.run("MC_MultiCtl", cfg=cfg, workers=1, timeout=1800, check=False)
        finally:
            os.remove(os.path.join(tlc.SPEC_DIR, cfg))
        seen, out = set(), []
        for x in r.by_tag("MCTL"):
            cs = sorted(x["ctrls"], key=lambda c: c["kind"])
            s = json.dumps(cs, sort_keys=True)
            if s not in seen:
                seen.add(s)
                out.append(cs)
        return out
    return core.cached("mctl" + sh, emit)


def validate(cases):
    sc = core.Scratch()
    try:
        p = sc.path("trace.ndjson")
        core.write_ndjson(p, cases)
        res = tlc.run("Trace_MultiCtl", env={"TRACE_FILE": p}, check=True, timeout=3000)
        s = res.by_tag("SUMMARY")
        if not s or s[0]["cases"] != len(cases):
            raise tlc.TLCError("trace not consumed: %s" % s)
        return res, res.by_tag("FAIL")
    finally:
        sc.cleanup()


def part(V, tr, sd):
    rnd = random.Random(sd + 23)
    mc = tlc.run("MC_MultiCtl", workers=core.nworkers(), timeout=3000, check=True)
    narrow = tlc.run("MC_MultiCtl", cfg="MC_MultiCtl_first.cfg", workers=1, timeout=3000, check=False)
    # thorough tier: the design-level invariants also for four controllers on three levels (273069 states, ~2 min; not replayed)
    deep = tlc.run("MC_MultiCtl", cfg="MC_MultiCtl_four.cfg", workers=core.nworkers(), timeout=3000, check=True) if tr != "quick" else None
    cfgs = configs()
    three = [c for c in cfgs if len(c) == 3]
    small = [c for c in cfgs if len(c) < 3]
    if tr == "quick":
        # every configuration whose three controllers share one level (the relevant-nets rule of a level is exercised by several
        # controllers naming different nets, in every order) + a seeded sample of the others
        onelevel = [c for c in three if len({x["level"] for x in c}) == 1]
        rest = [c for c in three if len({x["level"] for x in c}) > 1]
        cfgs = onelevel + rnd.sample(rest, min(len(rest), 60)) + rnd.sample(small, min(len(small), 40))
    jobs = [{"id": "mc%d" % i, "ctrls": c} for i, c in enumerate(cfgs)]
    cases = core.pmap(run_case, jobs, chunksize=4)
    res, fails = validate(cases)
    by_id = {c["id"]: c for c in cases}
    cc = collections.Counter()
    for f in fails:
        for cl in f["clauses"]:
            cc[cl[0]] += 1
            V.report(cl[0], "ctl:%s" % cl[1], by_id[f["id"]], text="case=%s ctrls=%s" % (f["id"], json.dumps(by_id[f["id"]]["ctrls"])[:200]))
    extra = {"control_loop_model_states_four_controllers_three_levels": deep.distinct} if deep is not None else {}
    return {**extra, "control_loop_model_states": mc.distinct, "control_loop_narrow_relevance_violates": narrow.invariant_violated,
            "control_loop_configurations": len(configs()), "control_loop_runs": len(cases),
            "control_loop_runs_three_controllers": sum(1 for c in cases if len(c["ctrls"]) == 3),
            "control_loop_failing_clause_counts": dict(cc)}
