"""Run (part of) the repository's test-suite under the recording plugin and return the recorded pipeflow calls."""
import glob, hashlib, json, os, subprocess, sys, tempfile, shutil
from . import core

TEST_DIRS = ["src/pandapipes/test/api", "src/pandapipes/test/pipeflow_internals", "src/pandapipes/test/networks",
             "src/pandapipes/test/openmodelica_comparison", "src/pandapipes/test/stanet_comparison", "src/pandapipes/test/topology"]


def tree_hash():
    h = hashlib.sha1()
    for p in sorted(glob.glob("/repo/src/pandapipes/**/*.py", recursive=True)):
        h.update(p.encode())
        h.update(open(p, "rb").read())
    return h.hexdigest()[:16]


def record(dirs=None, timeout=2400):
    """-> list of recorded cases (cached per content hash of /repo/src/pandapipes and of the plugin)"""
    dirs = dirs or TEST_DIRS
    key = "suite" + tree_hash() + hashlib.sha1(open(os.path.join(core.ROOT, "harness", "suite_plugin.py"), "rb").read()).hexdigest()[:8] \
          + hashlib.sha1(open(os.path.join(core.ROOT, "harness", "netio.py"), "rb").read()).hexdigest()[:8] + str(len(dirs))

    def run():
        d = tempfile.mkdtemp(prefix="suite_trace_")
        try:
            env = dict(os.environ, VERIF_SUITE_TRACE_DIR=d, PANDAPIPES_VERIF="1", PYTHONPATH=core.ROOT + os.pathsep + os.environ.get("PYTHONPATH", ""))
            cmd = ["/venv/bin/python", "-m", "pytest", "-q", "-p", "no:cacheprovider", "-p", "harness.suite_plugin", "--timeout=900",
                   "-n", str(min(8, core.nworkers())), "-x", "--no-header", "-W", "ignore"] + [os.path.join("/repo", x) for x in dirs if os.path.isdir(os.path.join("/repo", x))]
            cmd.remove("-x")
            p = subprocess.run(cmd, cwd="/repo", env=env, stdout=subprocess.PIPE, stderr=subprocess.STDOUT, text=True, timeout=timeout)
            cases = []
            for fn in sorted(glob.glob(os.path.join(d, "trace_*.ndjson"))):
                for line in open(fn):
                    cases.append(json.loads(line))
            errs = sum(1 for fn in glob.glob(os.path.join(d, "errors_*.txt")))
            return {"cases": cases, "pytest_tail": p.stdout.strip().splitlines()[-1:] if p.stdout.strip() else [], "recording_errors": errs}
        finally:
            shutil.rmtree(d, ignore_errors=True)
    return core.cached(key, run)


MAXJ = 60          # nets larger than this are not fed to TLC (set-based closure in TLA+ is quadratic); counted as skipped


def pf_cases(check_names):
    """recorded calls prepared for Trace_PF (hydraulic clauses only for modes with a hydraulic stage)"""
    r = record()
    out, skipped = [], 0
    for c in r["cases"]:
        if len(c["net"]["J"]) > MAXJ:
            skipped += 1
            continue
        if c["mode"] == "heat":
            continue
        d = dict(c)
        d["check"] = list(check_names)
        out.append(d)
        if "C04" in check_names and c["mode"] in ("sequential", "bidirectional") and c["outcome"] == "returned":
            t = dict(c)
            t["id"] = c["id"] + ".T"
            t["check"] = ["C04", "C04T"]
            out.append(t)
    return out, {"suite_calls_recorded": len(r["cases"]), "suite_calls_skipped_large": skipped, "suite_pytest": r["pytest_tail"]}


def solver_cases():
    """recorded calls prepared for Trace_Solver"""
    r = record()
    out = []
    for c in r["cases"]:
        nums = 0
        if c["outcome"] != "returned":
            nums = sum(1 for j in c["net"]["J"] if j["p"][0] == 0) + sum(1 for e in c["net"]["E"] if e["hydall"] in ("num", "mix")) \
                + sum(1 for n in c["net"]["N"] if n["m"][0] == 0)
        oc = c["oclass"]
        if c["mode"] == "heat" and oc not in ("returned", "PipeflowNotConverged"):
            oc = "usage_error"
        if oc == "UserWarning:pc_controlled_junction_disconnected":
            oc = "usage_error"      # an ill-posed model is refused with an explicit message before anything is solved
        out.append({"id": c["id"], "kind": "call", "events": c["events"], "outcome": c["outcome"] if c["outcome"] in ("returned", "PipeflowNotConverged") else oc,
                    "oclass": oc, "sig": "%s|%s|suite" % (oc, c["mode"]), "flag_converged": c["converged"],
                    "numbers_in_results": nums, "nonfinite_in_supplied": 0, "expect": "", "test": c["test"]})
    return out
