"""C01 - mass conservation: designed-exact family (flows equal the designed integers, reported flows balance) and
arbitrary TLC-generated nets with library fluids (balance of the reported flows in 1e-9 kg/s ticks, Trace_PF)."""
import collections, json, random, time
from . import core, ref, c04, pf

RULE = ("designed liquid scenarios compared with the exact flows + TLC-generated nets of all component kinds (water / lgas, "
        "numba off) whose reported flows must balance at every supplied junction; non-trivial = >= 3 junctions")


def row_params(an):
    """deterministic, row-dependent parameters so that set-points of different rows differ"""
    P = {}
    for e in an["E"]:
        l = e["lab"]
        if e["tbl"] == "press_control":
            P[(e["tbl"], l)] = {"p": 3.2 - 0.45 * l}
        elif e["tbl"] == "flow_control":
            P[(e["tbl"], l)] = {"mdot": 0.1 + 0.13 * l}
        elif e["tbl"] == "circ_pump_mass":
            P[(e["tbl"], l)] = {"mdot": 0.3 + 0.1 * l, "p": 5.0 + 0.5 * l}
        elif e["tbl"] == "circ_pump_pressure":
            P[(e["tbl"], l)] = {"plift": 0.8 + 0.3 * l, "p": 5.0 + 0.5 * l}
        elif e["tbl"] == "pipe":
            P[(e["tbl"], l)] = {"length_km": 0.1 + 0.07 * l}
    for n in an["N"]:
        l = n["lab"]
        if n["tbl"] == "ext_grid":
            P[(n["tbl"], l)] = {"p": 5.0 + 0.6 * l}
        elif n["tbl"] in ("sink", "source"):
            P[(n["tbl"], l)] = {"mdot": 0.05 + 0.04 * l, "scaling": 1.0 + 0.5 * (l % 3)}
    return P


def generic_part(V, tr, sd, checks=("C01",), emit=None):
    """arbitrary nets emitted by the connectivity model, any component mix: reported flows must balance"""
    rnd = random.Random(sd + 1)
    r, nets = c04.gen_nets(emit or c04.SIM_EMIT, simulate="num=%d" % (40 if tr == "quick" else 700), depth=18, seed=500 + sd, timeout=1200)
    nets = [n for n in nets if n["sup"]]
    if len(nets) > (1200 if tr == "quick" else 30000):
        nets = rnd.sample(nets, 1200 if tr == "quick" else 30000)
    jobs = []
    for i, n in enumerate(nets):
        fl = "lgas" if i % 3 == 0 else "water"
        jobs.append({"id": "g%d" % i, "an": n["net"], "fluid": fl, "params": row_params(n["net"]), "opts": dict(c04.PF_OPTS), "check": list(checks), "prune": False})
    cases = [c for c in core.pmap(pf.run_case_prune, jobs, chunksize=16) if "skip" not in c]
    suite_cov = {}
    if tr == "thorough" and emit is None:
        from . import suite
        scases, suite_cov = suite.pf_cases(list(checks))
        cases = cases + scases
    res, fails = c04.validate(cases)
    by_id = {c["id"]: c for c in cases}
    for f in fails:
        for cl in f["clauses"]:
            V.report(cl[0], cl[1], by_id[f["id"]], text="detail=%s case=%s" % (cl[2:], f["id"]))
    ret = sum(1 for c in cases if c["outcome"] == "returned")
    return {"generic_nets_run": len(cases), "generic_nets_returned": ret, "generic_failures": len(fails), "repository_suite": suite_cov}


def main():
    t0 = time.time()
    V = core.Verdicts("C01")
    extra = generic_part(V, core.tier(), core.seed())
    rc1 = V.finish()
    rc2 = ref.run_check("C01", RULE, extra_cov=extra, prior_violations=len(V.violations))
    return 1 if (rc1 or rc2) else 0


def replay(path):
    rec = json.load(open(path))
    if "net" in rec["case"]:
        c = rec["case"]
        an = {"J": [dict(lab=j["lab"], svc=j["svc"]) for j in c["net"]["J"]],
              "E": [{k: e[k] for k in ("tbl", "lab", "a", "b", "et", "svc", "ca", "cj", "typ", "sec")} for e in c["net"]["E"]],
              "N": [{k: n[k] for k in ("tbl", "lab", "j", "svc", "typ")} for n in c["net"]["N"]]}
        case = pf.run_case_prune({"id": c["id"], "an": an, "opts": c04.PF_OPTS, "check": ["C01"], "prune": False})
        res, fails = c04.validate([case])
        for f in fails:
            print("FAIL", f)
        return 1 if fails else 0
    return ref.replay_file("C01", path)
