"""C01 - mass conservation: designed-exact family (flows equal the designed integers, reported flows balance) and
arbitrary TLC-generated nets with library fluids (balance of the reported flows in 1e-9 kg/s ticks, Trace_PF)."""
import collections, json, random, time
from . import core, ref, c04, pf

RULE = ("designed liquid scenarios compared with the exact flows + TLC-generated nets of all component kinds (water / lgas, "
        "numba off) whose reported flows must balance at every supplied junction; non-trivial = >= 3 junctions")


def row_params(an):
    """deterministic, row-dependent parameters so that set-points of different rows differ"""
    P = {}
    for e in an["E"]:
        l = e["lab"]
        if e["tbl"] == "press_control":
            P[(e["tbl"], l)] = {"p": 3.2 - 0.45 * l}
        elif e["tbl"] == "flow_control":
            P[(e["tbl"], l)] = {"mdot": 0.1 + 0.13 * l}
        elif e["tbl"] == "circ_pump_mass":
            P[(e["tbl"], l)] = {"mdot": 0.3 + 0.1 * l, "p": 5.0 + 0.5 * l}
        elif e["tbl"] == "circ_pump_pressure":
            P[(e["tbl"], l)] = {"plift": 0.8 + 0.3 * l, "p": 5.0 + 0.5 * l}
        elif e["tbl"] == "pipe":
            P[(e["tbl"], l)] = {"length_km": 0.1 + 0.07 * l}
            if l % 2 == 1:
                P[(e["tbl"], l)]["do_mm"] = 100.0      # every second pipe is thick-walled (a property of the row, whatever label it carries)
    for n in an["N"]:
        l = n["lab"]
        if n["tbl"] == "ext_grid":
            P[(n["tbl"], l)] = {"p": 5.0 + 0.6 * l}
        elif n["tbl"] in ("sink", "source"):
            P[(n["tbl"], l)] = {"mdot": 0.05 + 0.04 * l, "scaling": 1.0 + 0.5 * (l % 3)}
    return P


HEIGHTS = [0.0, 35.0, -20.0, 260.0, 12.0]


def generic_part(V, tr, sd, checks=("C01",), emit=None, fluid=None, heights=False, cap_quick=1200):
    """arbitrary nets emitted by the connectivity model, any component mix: reported flows must balance"""
    rnd = random.Random(sd + 1)
    r, nets = c04.gen_nets(emit or c04.SIM_EMIT, simulate="num=%d" % (40 if tr == "quick" else 700), depth=18, seed=500 + sd, timeout=1200)
    nets = [n for n in nets if n["sup"]]
    if len(nets) > (cap_quick if tr == "quick" else 30000):
        nets = rnd.sample(nets, cap_quick if tr == "quick" else 30000)
    jobs = []
    for i, n in enumerate(nets):
        fl = fluid or ("lgas" if i % 3 == 0 else "water")
        prm = row_params(n["net"])
        if heights or (emit is None and i % 4 == 3):
            # junctions at different heights (hydrostatic terms; ambient pressure differs between the ends of a branch)
            prm["heights"] = {j["lab"]: HEIGHTS[(j["lab"] + i) % len(HEIGHTS)] for j in n["net"]["J"]}
            for _ in range(len(n["net"]["E"])):       # the two ends of a machine (a zero-length element with a prescribed lift / ratio) share a height
                for e in n["net"]["E"]:
                    if e["tbl"] in ("compressor", "circ_pump_pressure", "circ_pump_mass", "pump"):
                        prm["heights"][e["b"]] = prm["heights"][e["a"]]
        for e in n["net"]["E"]:
            if e["tbl"] == "compressor":
                prm[("compressor", e["lab"])] = {"ratio": [1.25, 1.5, 1.125, 2.0][e["lab"] % 4]}
        jobs.append({"id": "g%d" % i, "an": n["net"], "fluid": fl, "params": prm, "opts": dict(c04.PF_OPTS), "check": list(checks), "prune": False})
    cases = [c for c in core.pmap(pf.run_case_prune, jobs, chunksize=16) if "skip" not in c]
    suite_cov = {}
    if tr == "thorough" and emit is None:
        from . import suite
        scases, suite_cov = suite.pf_cases(list(checks))
        cases = cases + scases
    ntr = 0
    if emit is None and "C01" in checks:
        # every time step of transient series (run_timeseries(transient=True), the pit is kept between the steps): the flows the net
        # holds when the output writer is called must balance like those of any other returned calculation
        from . import transient as TR
        profs = [{"profile": list(p), "cod": False} for p in (("A", "B", "A"), ("B", "B", "A", "A"), ("A", "A"), ("B", "A", "B"))]
        if tr == "thorough":
            import itertools
            profs = [{"profile": list(p), "cod": False} for n in (2, 3, 4) for p in itertools.product("AB", repeat=n)]
        tj = TR.jobs_for("thorough", sd, profs)
        for ts, pfc in core.pmap(TR.run_case, tj, chunksize=1):
            for c in pfc:
                c["check"] = list(checks)
            cases += pfc
            ntr += len(pfc)
    res, fails = c04.validate(cases)
    by_id = {c["id"]: c for c in cases}
    for f in fails:
        for cl in f["clauses"]:
            V.report(cl[0], cl[1], by_id[f["id"]], text="detail=%s case=%s" % (cl[2:], f["id"]))
    ret = sum(1 for c in cases if c["outcome"] == "returned")
    return {"generic_nets_run": len(cases), "generic_nets_returned": ret, "generic_failures": len(fails), "repository_suite": suite_cov,
            "transient_time_steps_checked": ntr}


def main():
    t0 = time.time()
    V = core.Verdicts("C01")
    extra = generic_part(V, core.tier(), core.seed())
    rc1 = V.finish()
    rc2 = ref.run_check("C01", RULE, extra_cov=extra, prior_violations=len(V.violations))
    return 1 if (rc1 or rc2) else 0


def replay(path):
    rec = json.load(open(path))
    if "net" in rec["case"]:
        c = rec["case"]
        an = {"J": [dict(lab=j["lab"], svc=j["svc"]) for j in c["net"]["J"]],
              "E": [{k: e[k] for k in ("tbl", "lab", "a", "b", "et", "svc", "ca", "cj", "typ", "sec")} for e in c["net"]["E"]],
              "N": [{k: n[k] for k in ("tbl", "lab", "j", "svc", "typ")} for n in c["net"]["N"]]}
        case = pf.run_case_prune({"id": c["id"], "an": an, "opts": c04.PF_OPTS, "check": ["C01"], "prune": False})
        res, fails = c04.validate([case])
        for f in fails:
            print("FAIL", f)
        return 1 if fails else 0
    return ref.replay_file("C01", path)


def relational_part(V, prop, relkind, tr, sd, workers=None, ncap=None):
    """arbitrary TLC-generated nets (all component kinds, up to 3 junction-pipe valves, library water / lgas, heat losses):
    a second description of the same system (relabelled + shuffled, or with orientation-free branches swapped) must give
    the same results for corresponding elements (Trace_PF.RelClauses)"""
    rnd = random.Random(sd + 5)
    emit = dict(MaxJ="= 4", MaxE="= 4", MaxN="= 3", MaxPV="= 3", Kinds="<- KindsAll", NKinds="<- NKindsTherm", TogJ="= FALSE")
    r, nets = c04.gen_nets(emit, simulate="num=%d" % (50 if tr == "quick" else 800), depth=20, seed=4000 + sd, timeout=1200)
    nets = [n for n in nets if n["sup"] and len(n["net"]["E"]) >= 2]
    cap = ncap or (600 if tr == "quick" else 20000)
    if len(nets) > cap:
        nets = rnd.sample(nets, cap)
    extra_therm = []
    if relkind in ("rev", "iso"):
        # passive heat nets (pipes with heat losses, valves, heat exchangers; library water): they converge in every mode, so the thermal
        # modes - above all bidirectional, where temperature-dependent properties follow the actual flow direction - are well represented
        th = dict(MaxJ="= 4", MaxE="= 4", MaxN="= 3", MaxPV="= 1", Kinds="<- KindsPassive", NKinds="<- NKindsTherm", TogJ="= FALSE")
        r3, n3 = c04.gen_nets(th, simulate="num=%d" % (40 if tr == "quick" else 500), depth=18, seed=4200 + sd, timeout=1200)
        n3 = [n for n in n3 if n["sup"] and sum(1 for e in n["net"]["E"] if e["tbl"] == "pipe" and e["svc"]) >= 2
              and any(q["tbl"] == "sink" and q["svc"] for q in n["net"]["N"]) and any(q["tbl"] == "ext_grid" and q["svc"] and "t" in q["typ"] for q in n["net"]["N"])]
        capt = 240 if tr == "quick" else 6000
        extra_therm = rnd.sample(n3, capt) if len(n3) > capt else n3
    if relkind == "iso":
        # nets dense in junction-pipe valves (three valves on three pipes): row order vs label order of the valve table matters
        pv = dict(MaxJ="= 4", MaxE="= 3", MaxN="= 2", MaxPV="= 3", Kinds="<- KindsPipe", NKinds="<- NKindsCore", TogJ="= FALSE")
        r2, n2 = c04.gen_nets(pv, simulate="num=%d" % (60 if tr == "quick" else 600), depth=16, seed=4100 + sd, timeout=1200)
        n2 = [n for n in n2 if n["sup"] and sum(1 for e in n["net"]["E"] if e["et"] == "pi") >= 3]
        if len(n2) > (250 if tr == "quick" else 5000):
            n2 = rnd.sample(n2, 250 if tr == "quick" else 5000)
        nets = nets + n2
    jobs = []
    for i, n in enumerate(nets):
        # modes in turn: sequential, hydraulics only, bidirectional (temperature-dependent properties evaluated along the actual flow
        # direction, which differs from the declared one for a swapped branch)
        md = ("sequential", "hydraulics", "bidirectional")[i % 3] if relkind in ("rev", "iso") else ("sequential" if i % 2 == 0 else "hydraulics")
        seq = md != "hydraulics"
        opts = dict(c04.PF_OPTS, mode=md, max_iter_therm=60, max_iter_bidirect=80, tol_T=1e-9)
        prm = row_params(n["net"])
        if relkind == "numba":
            prm["tn"], prm["tn_step"] = 300.0, 9.0        # different junction temperatures (gas norm factors at both ends)
            for q in n["net"]["N"]:
                if q["tbl"] == "sink" and q["lab"] % 2 == 0:
                    prm[("sink", q["lab"])] = {"mdot": 5e-9, "scaling": 1.0}     # a trickle (zero-flow thresholds of the kernels)
        jobs.append({"id": "r%d" % i, "an": n["net"], "fluid": "water" if (seq or i % 4 == 1) else "lgas", "params": prm,
                     "opts": opts, "check": [prop + "R"], "relkind": relkind, "rseed": sd * 1000 + i,
                     "ropts": {"use_numba": True} if relkind == "numba" else None})
    for i, n in enumerate(extra_therm):
        md = ("bidirectional", "sequential")[i % 2]
        prm = row_params(n["net"])
        for q in n["net"]["N"]:
            if q["tbl"] == "sink":
                prm[("sink", q["lab"])] = {"mdot": 0.4 + 0.3 * q["lab"], "scaling": 1.0}      # flows large enough for a clear pressure drop
        jobs.append({"id": "t%d" % i, "an": n["net"], "fluid": "water", "params": prm,
                     "opts": dict(c04.PF_OPTS, mode=md, max_iter_therm=60, max_iter_bidirect=100, tol_T=1e-9), "check": [prop + "R"],
                     "relkind": relkind, "rseed": sd * 1000 + 500 + i, "ropts": None})
    if relkind == "numba":
        # trickle flows on dead-end pipes (between the zero-flow thresholds of the twin kernels)
        for t, trickle in enumerate((5e-9, 3e-10, 8e-9)):
            mini = {"J": [dict(lab=k, svc=True) for k in (1, 2, 3)],
                    "E": [dict(tbl="pipe", lab=1, a=1, b=2, et="", svc=True, ca=True, cj=0, typ="", sec=2),
                          dict(tbl="pipe", lab=2, a=2, b=3, et="", svc=True, ca=True, cj=0, typ="", sec=1)],
                    "N": [dict(tbl="ext_grid", lab=1, j=1, svc=True, typ="pt"), dict(tbl="sink", lab=1, j=2, svc=True, typ=""),
                          dict(tbl="sink", lab=2, j=3, svc=True, typ="")]}
            jobs.append({"id": "trickle%d" % t, "an": mini, "fluid": "water",
                         "params": {("sink", 2): {"mdot": trickle, "scaling": 1.0}, ("sink", 1): {"mdot": 0.2, "scaling": 1.0}},
                         "opts": dict(c04.PF_OPTS, mode="sequential", max_iter_therm=60, tol_T=1e-9), "check": [prop + "R"],
                         "relkind": "numba", "rseed": t, "ropts": {"use_numba": True}})
    cases = [c for c in core.pmap(pf.run_case_related, jobs, chunksize=12, workers=workers) if "skip" not in c]
    if relkind == "rev":
        # orientation dependence in hydraulics-only mode when a feeder's temperature differs from tfluid_k (F30, repaired)
        mini = {"J": [dict(lab=1, svc=True), dict(lab=2, svc=True)],
                "E": [dict(tbl="valve", lab=1, a=2, b=1, et="ju", svc=True, ca=True, cj=0, typ="", sec=1)],
                "N": [dict(tbl="ext_grid", lab=1, j=1, svc=True, typ="pt"), dict(tbl="sink", lab=1, j=2, svc=True, typ="")]}
        mc = pf.run_case_related({"id": "startT", "an": mini, "fluid": "water", "params": {"tn": 300.0},
                                  "opts": dict(c04.PF_OPTS, mode="hydraulics"), "check": ["C09S"], "relkind": "rev", "rseed": 1})
        if "skip" not in mc and mc["rel"]["rev"]:
            cases.append(mc)
    res, fails = c04.validate(cases)
    by_id = {c["id"]: c for c in cases}
    for f in fails:
        for cl in f["clauses"]:
            V.report(cl[0], cl[1], by_id[f["id"]], text="detail=%s case=%s" % (cl[2:], f["id"]))
    both = sum(1 for c in cases if c["outcome"] == "returned" and c.get("routcome") == "returned")
    return {"relational_pairs_run": len(cases), "relational_pairs_both_returned": both, "relational_failures": len(fails),
            "relational_pairs_with_pipe_valves": sum(1 for c in cases if any(e["et"] == "pi" for e in c["net"]["E"]))}
