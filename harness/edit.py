"""Replay of MC_Edit behaviours (editing API) on real nets; shared by C16 / C17."""
import copy, hashlib, json, logging, warnings
import numpy as np
import pandas as pd
from . import netio

warnings.filterwarnings("ignore")
logging.disable(logging.CRITICAL)

CUSTOM = ("zone", "fl")      # the harness's own extra columns (bulk-creation kwargs); adding a column touches no row
REF_COLS = {"junction": [], "pipe": ["from_junction", "to_junction"], "valve": ["junction", "element"]}


def base_net(k):
    """the curated base nets of MC_Edit.BaseNet, built with public create_* calls; name = r<id>"""
    import pandapipes as pp
    if k == 1:
        net = pp.create_empty_network(fluid="water")
        for lab, i in ((0, 1), (1, 2), (2, 3), (5, 4)):
            pp.create_junction(net, 5, 320, index=lab, name="r%d" % i, geodata=(lab, lab))
        pp.create_pipe_from_parameters(net, 0, 1, 0.3, 80, k_mm=0.1, index=1, name="r5", sections=2, geodata=[(0, 0), (1, 1)])
        pp.create_pipe_from_parameters(net, 1, 2, 0.2, 80, k_mm=0.1, index=5, name="r6", geodata=[(1, 1), (2, 2)])
        pp.create_pipe_from_parameters(net, 2, 5, 0.4, 60, k_mm=0.1, index=0, name="r7", sections=3, geodata=[(2, 2), (5, 5)])
        pp.create_valve(net, 0, 2, "ju", 50, loss_coefficient=3, index=0, name="r8")
        pp.create_valve(net, 1, 5, "pi", 80, loss_coefficient=1, index=1, name="r9")
        pp.create_valve(net, 2, 0, "pi", 60, loss_coefficient=2, index=2, name="r10")
        pp.create_flow_control(net, 1, 5, 0.4, index=0, name="r11")
        pp.create_ext_grid(net, 0, 6, 320, type="pt", index=0, name="r12")
        pp.create_sink(net, 5, 0.8, index=1, name="r13")
        pp.create_sink(net, 2, 0.5, index=0, name="r14")
    elif k == 2:
        from pandapipes.pandapipes_net import Sector
        net = pp.create_empty_network(fluid="lgas", sector=Sector.GAS)     # no heat components in this net
        for lab, i in ((2, 1), (0, 2), (1, 3), (4, 4)):
            pp.create_junction(net, 1, 290, index=lab, name="r%d" % i, geodata=(lab, 0))
        pp.create_pipe_from_parameters(net, 2, 0, 1.0, 100, k_mm=0.05, index=2, name="r5")
        pp.create_pipe_from_parameters(net, 1, 4, 0.7, 100, k_mm=0.05, index=0, name="r7", sections=2)
        pp.create_pressure_control(net, 0, 1, 4, controlled_p_bar=0.6, index=0, name="r6")
        pp.create_valve(net, 4, 0, "pi", 100, index=4, name="r8")
        pp.create_ext_grid(net, 2, 1.0, 290, type="pt", index=3, name="r9")
        pp.create_sink(net, 4, 0.02, index=0, name="r10")
        pp.create_source(net, 1, 0.005, index=0, name="r11")
    else:
        net = pp.create_empty_network(fluid="water")
        for lab, i in ((3, 1), (4, 2), (7, 3)):
            pp.create_junction(net, 5, 330, index=lab, name="r%d" % i)
        pp.create_circ_pump_const_pressure(net, 7, 3, 5, 1.5, t_flow_k=360, type="pt", index=0, name="r4")
        pp.create_pipe_from_parameters(net, 3, 4, 0.4, 80, k_mm=0.1, u_w_per_m2k=5, index=4, name="r5", sections=2)
        pp.create_heat_exchanger(net, 4, 7, 20000, 80, index=3, name="r6")
        pp.create_heat_consumer(net, 3, 7, qext_w=10000, controlled_mdot_kg_per_s=0.3, index=0, name="r7")
        pp.create_valve(net, 4, 4, "pi", 80, index=0, name="r8")
    try:
        pp.pipeflow(net, mode="sequential" if k == 3 else "hydraulics", use_numba=False, iter=60)
    except Exception:
        pass
    return net


def _rid(name):
    try:
        return int(str(name)[1:]) if str(name).startswith("r") else -1
    except ValueError:
        return -1


def _nr(v):
    """repr with None / NaN unified (pandas turns one into the other when tables are concatenated)"""
    if v is None or (isinstance(v, float) and np.isnan(v)):
        return "null"
    try:
        if pd.isnull(v):
            return "null"
    except (TypeError, ValueError):
        pass
    return repr(v)


def _hash(vals):
    return hashlib.sha1(repr(vals).encode()).hexdigest()[:10]


def project(net):
    """abstract rows with creation identity (from name), digest of all other columns (`rest`) and digest of the
    stored result row (`rtag`)"""
    an = {"J": [], "E": [], "N": []}

    def rest(df, lab, skip):
        row = df.loc[lab]
        return _hash([(c, _nr(row[c])) for c in df.columns if c not in skip and c not in CUSTOM])

    def rtag(tbl, lab):
        rt = net.get("res_" + tbl)
        if rt is None or not isinstance(rt, pd.DataFrame) or lab not in rt.index:
            return ""
        v = rt.loc[lab]
        if isinstance(v, pd.DataFrame):
            return "dup"
        return _hash([repr(x) for x in v.values])

    for lab in net.junction.index:
        row = net.junction.loc[lab]
        geo = ""
        if "junction_geodata" in net and lab in net.junction_geodata.index:
            geo = _hash(list(net.junction_geodata.loc[lab].values))
        an["J"].append({"lab": int(lab), "svc": bool(row.in_service), "id": _rid(row["name"]),
                        "rest": rest(net.junction, lab, ("name", "in_service")) + geo, "rtag": rtag("junction", lab)})
    for tbl in netio.BRANCH_TABLES:
        if tbl not in net or not isinstance(net[tbl], pd.DataFrame):
            continue
        df = net[tbl]
        fcol, tcol = netio.FROM_TO[tbl]
        for lab in df.index:
            row = df.loc[lab]
            if isinstance(row, pd.DataFrame):
                row = row.iloc[0]
            geo = ""
            if tbl == "pipe" and "pipe_geodata" in net and lab in net.pipe_geodata.index:
                geo = _hash(repr(net.pipe_geodata.loc[lab].values.tolist()))
            an["E"].append({"tbl": tbl, "lab": int(lab), "a": int(row[fcol]), "b": int(row[tcol]),
                            "et": str(row["et"]) if tbl == "valve" else "",
                            "svc": bool(row[netio.ACTIVE_COL[tbl]]),
                            "ca": bool(row["control_active"]) if "control_active" in df.columns else True,
                            "cj": int(row["controlled_junction"]) if tbl == "press_control" else 0,
                            "typ": str(row["type"]) if tbl in ("circ_pump_mass", "circ_pump_pressure") else "",
                            "id": _rid(row["name"]),
                            "rest": _hash([(c, _nr(row[c])) for c in df.columns if c not in CUSTOM and c not in
                                           ("name", fcol, tcol, "controlled_junction", netio.ACTIVE_COL[tbl], "control_active")]) + geo,
                            "rtag": rtag(tbl, lab)})
    for tbl in netio.NODE_EL_TABLES:
        if tbl not in net or not isinstance(net[tbl], pd.DataFrame):
            continue
        df = net[tbl]
        for lab in df.index:
            row = df.loc[lab]
            if isinstance(row, pd.DataFrame):
                row = row.iloc[0]
            an["N"].append({"tbl": tbl, "lab": int(lab), "j": int(row["junction"]), "svc": bool(row.in_service),
                            "typ": str(row["type"]) if tbl == "ext_grid" else "", "id": _rid(row["name"]),
                            "rest": _hash([(c, _nr(row[c])) for c in df.columns if c not in CUSTOM and c not in ("name", "junction", "in_service")]),
                            "rtag": rtag(tbl, lab)})
    return an


def shape_tables(net):
    return {k: len(v) for k, v in net.items() if isinstance(v, pd.DataFrame) and not k.startswith("_")}


def shape_digest(net):
    """tables present, their columns and dtypes, component list, std types: what a refused create must not change"""
    parts = []
    for k in sorted(net.keys()):
        v = net[k]
        if isinstance(v, pd.DataFrame) and not k.startswith("_"):
            parts.append((k, list(v.columns), [str(t) for t in v.dtypes], len(v)))
    parts.append([c.__name__ for c in net.component_list])
    parts.append(sorted((k, sorted(map(str, v))) for k, v in net.get("std_types", {}).items()))
    return _hash(parts)


def _fn(pairs):
    return {int(k): int(v) for k, v in pairs}


def perform(net, op, serial):
    """perform one MC_Edit op on the real net. returns (outcome, net_after, subnet_or_None)"""
    import pandapipes as pp
    import pandapipes.toolbox as tb
    o = op["op"]
    name = "r%d" % serial
    sub = None
    try:
        if o == "reindex":
            lk = _fn(op["lk"])
            if op["tbl"] == "junction":
                tb.reindex_junctions(net, lk)
            elif op["tbl"] == "pipe":
                tb.reindex_pipes(net, lk)
            else:
                tb.reindex_elements(net, op["tbl"], lk)
        elif o == "continuous":
            if op["tbl"] == "junction":
                tb.create_continuous_junction_index(net, start=op["start"])
            else:
                tb.create_continuous_element_index(net, op["tbl"], start=op["start"])
        elif o == "continuous_all":
            tb.create_continuous_elements_index(net, start=op["start"])
        elif o == "drop_junctions":
            tb.drop_junctions(net, list(op["js"]))
        elif o == "drop_elements_at_junctions":
            tb.drop_elements_at_junctions(net, list(op["js"]))
        elif o == "drop_pipes":
            tb.drop_pipes(net, list(op["ps"]))
        elif o == "fuse_junctions":
            tb.fuse_junctions(net, op["j1"], list(op["j2"]))
        elif o == "select_subnet":
            sub = tb.select_subnet(net, list(op["js"]), include_results=True)
        elif o == "create_junction":
            geo = {"none": None, "ok": (1.0, 2.0), "bad": (1.0, 2.0, 3.0)}[op.get("geo", "none")]
            r = pp.create_junction(net, 5, 320, index=None if op["idx"] == -1 else op["idx"], name=name, geodata=geo)
            return ("ok" if r is not None else "none"), sub
        elif o == "create_heat_consumer":
            kw = {}
            for ch, (k, v) in {"q": ("qext_w", 1000.0), "m": ("controlled_mdot_kg_per_s", 0.2),
                               "d": ("deltat_k", 10.0), "t": ("treturn_k", 320.0)}.items():
                if ch in op["spec"] and op["spec"] != "none":
                    kw[k] = v
            r = pp.create_heat_consumer(net, op["a"], op["b"], index=None if op["idx"] == -1 else op["idx"], name=name, **kw)
            return ("ok" if r is not None else "none"), sub
        elif o == "create_bulk":
            r = _bulk(pp, net, op, serial)
            return ("ok" if r is not None else "none"), sub
        elif o == "create_branch":
            idx = None if op["idx"] == -1 else op["idx"]
            if op["tbl"] == "pipe":
                r = pp.create_pipe_from_parameters(net, op["a"], op["b"], 0.1, 80, index=idx, name=name)
            elif op["tbl"] == "flow_control":
                r = pp.create_flow_control(net, op["a"], op["b"], 0.1, index=idx, name=name)
            else:
                r = pp.create_heat_exchanger(net, op["a"], op["b"], 100.0, 80, index=idx, name=name)
            return ("ok" if r is not None else "none"), sub
        elif o == "create_valve":
            r = pp.create_valve(net, op["j"], op["el"], op["et"], 80, index=None if op["idx"] == -1 else op["idx"], name=name)
            return ("ok" if r is not None else "none"), sub
        elif o == "create_nodeel":
            idx = None if op["idx"] == -1 else op["idx"]
            if op["tbl"] == "sink":
                r = pp.create_sink(net, op["j"], 0.1, index=idx, name=name)
            else:
                r = pp.create_ext_grid(net, op["j"], 5, 300, type="pt", index=idx, name=name)
            return ("ok" if r is not None else "none"), sub
        else:
            raise ValueError(o)
        return "ok", sub
    except Exception as e:  # noqa
        return "raised:%s" % type(e).__name__, sub


def _bulk_args(op, serial):
    n, t = op["n"], op["tbl"]
    names = ["r%d" % (serial + k) for k in range(n)]
    A = [9 if (k + 1) == op["badpos"] else op["a"] for k in range(n)]
    B = [op["b"]] * n
    idx = None if op["idxmode"] == "auto" else [op["l0"] + k for k in range(n)]
    pat = op["pat"]
    # a float parameter and a free-text column, scalar / per-row / per-row with a missing entry in the middle
    fl = {"scalar": 0.5, "list": [0.5 + 0.1 * k for k in range(n)],
          "partial": [(None if (k == 1) else 0.5 + 0.1 * k) for k in range(n)]}[pat]
    tx = {"scalar": "z", "list": ["z%d" % k for k in range(n)],
          "partial": [(None if (k == 1 or n == 1) else "z%d" % k) for k in range(n)]}[pat]
    return names, A, B, idx, fl, tx


def _bulk(pp, net, op, serial):
    n, t = op["n"], op["tbl"]
    names, A, B, idx, fl, tx = _bulk_args(op, serial)
    if t == "junction":
        return pp.create_junctions(net, n, 5, 320, height_m=fl if fl is not None else 0, name=names, index=idx, zone=tx)
    if t == "pipe":
        return pp.create_pipes_from_parameters(net, A, B, 0.1, 80, text_k=fl, name=names, index=idx, zone=tx)
    if t == "valve":
        return pp.create_valves(net, A, B, "ju", 80, loss_coefficient=fl, name=names, index=idx, zone=tx)
    if t == "sink":
        return pp.create_sinks(net, A, 0.1, scaling=fl, name=names, index=idx, zone=tx)
    if t == "flow_control":
        return pp.create_flow_controls(net, A, B, 0.1, name=names, index=idx, zone=tx, fl=fl)
    if t == "heat_exchanger":
        return pp.create_heat_exchangers(net, A, B, 100.0, 80, loss_coefficient=fl, name=names, index=idx, zone=tx)
    raise ValueError(t)


def _singles(pp, net, op, serial):
    """the same elements created one by one"""
    n, t = op["n"], op["tbl"]
    names, A, B, idx, fl, tx = _bulk_args(op, serial)
    for k in range(n):
        f = fl[k] if isinstance(fl, list) else fl
        z = tx[k] if isinstance(tx, list) else tx
        i = None if idx is None else idx[k]
        if t == "junction":
            pp.create_junction(net, 5, 320, height_m=f if f is not None else np.nan, name=names[k], index=i, zone=z)
        elif t == "pipe":
            pp.create_pipe_from_parameters(net, A[k], B[k], 0.1, 80, text_k=f, name=names[k], index=i, zone=z)
        elif t == "valve":
            pp.create_valve(net, A[k], B[k], "ju", 80, loss_coefficient=f if f is not None else np.nan, name=names[k], index=i, zone=z)
        elif t == "sink":
            pp.create_sink(net, A[k], 0.1, scaling=f if f is not None else np.nan, name=names[k], index=i, zone=z)
        elif t == "flow_control":
            pp.create_flow_control(net, A[k], B[k], 0.1, name=names[k], index=i, zone=z, fl=f)
        elif t == "heat_exchanger":
            pp.create_heat_exchanger(net, A[k], B[k], 100.0, 80, loss_coefficient=f if f is not None else np.nan, name=names[k], index=i, zone=z)


def loose_digest(df):
    """values only: columns sorted by name, NaN/None unified, numbers by repr of float, index values"""
    cols = [c for c in sorted(map(str, df.columns)) if not df[c].isnull().all()]   # an all-null column carries nothing
    parts = [cols, [int(i) for i in df.index]]
    for c in cols:
        vals = []
        for v in df[c].values:
            if v is None or (isinstance(v, float) and np.isnan(v)):
                vals.append("null")
            elif isinstance(v, (bool, np.bool_)):
                vals.append("b%d" % int(v))
            elif isinstance(v, (int, float, np.integer, np.floating)):
                vals.append(repr(float(v)))
            else:
                vals.append("s" + str(v))
        parts.append(vals)
    return _hash(parts)


def replay(job):
    """one MC_Edit behaviour -> trace case"""
    net = base_net(job["base"])
    events = []
    serial = 20
    pre = project(net)
    case = {"id": job["id"], "base": job["base"], "pre": pre, "events": events, "hist": job["hist"]}
    for op in job["hist"]:
        shape0 = shape_digest(net)
        tabs0 = shape_tables(net)
        outcome, sub = perform(net, op, serial)
        ev = {k: v for k, v in op.items()}
        for k in ("js", "ps", "j2"):
            if k in ev:
                ev[k] = sorted(ev[k])
        ev["outcome"] = "ok" if outcome == "ok" else ("none" if outcome == "none" else "raised")
        ev["exc"] = outcome
        try:
            ev["post"] = project(net)
            ev["post_ok"] = True
        except Exception as e:  # noqa  (e.g. duplicate labels make rows ambiguous)
            ev["post"] = {"J": [], "E": [], "N": []}
            ev["post_ok"] = False
        ev["shape_same"] = shape_digest(net) == shape0
        tabs1 = shape_tables(net)
        # which tables appeared / disappeared (finding signature): e.g. "+heat_exchanger"
        ev["shape_diff"] = ",".join(sorted(["+" + k for k in tabs1 if k not in tabs0 and not k.startswith("res_")] +
                                           ["-" + k for k in tabs0 if k not in tabs1 and not k.startswith("res_")]))
        if sub is not None:
            try:
                ev["sub"] = project(sub)
            except Exception:
                ev["sub"] = {"J": [], "E": [], "N": []}
                ev["post_ok"] = False
        else:
            ev["sub"] = {"J": [], "E": [], "N": []}
        ev["serial"] = serial
        ev["dig_bulk"] = ev["dig_single"] = ev["sdig_bulk"] = ev["sdig_single"] = ""
        if op["op"] == "create_bulk" and outcome == "ok":
            import pandapipes as pp
            from . import hist as H
            net2 = base_net(job["base"]) if len(events) == 0 else None
            if net2 is not None:
                try:
                    _singles(pp, net2, op, serial)
                    ev["dig_single"] = loose_digest(net2[op["tbl"]])
                    ev["sdig_single"] = H.table_digest(net2[op["tbl"]])
                except Exception as e:  # noqa
                    ev["dig_single"] = "raised:" + type(e).__name__
                ev["dig_bulk"] = loose_digest(net[op["tbl"]])
                ev["sdig_bulk"] = H.table_digest(net[op["tbl"]])
        if op["op"].startswith("create") and outcome == "ok":
            serial += op.get("n", 1)
        for k in ("lk",):
            if k in ev:
                ev[k] = [[int(a), int(b)] for a, b in ev[k]]
        if "ok" not in ev:
            ev["ok"] = True
        events.append(ev)
    return case
