"""Standard-type library histories (spec/MC_StdType.tla, PPStd.tla, Trace_StdType.tla) replayed on a real net; used by C16 and C19."""
import collections, hashlib, json, math, os, random, logging, warnings
from . import core, tlc

warnings.filterwarnings("ignore")
logging.disable(logging.CRITICAL)
NAMES = ("T1", "T2")
NOVAL = -1


def typedata(dt):
    d = {"outer_diameter_mm": 130.0, "k_mm": dt["k"] / 10.0}
    if dt["d"] != NOVAL:
        d["inner_diameter_mm"] = float(dt["d"])
    if dt["u"] != NOVAL:
        d["u_w_per_m2k"] = float(dt["u"])
    return d


def _code(v, scale=1.0):
    if v is None:
        return NOVAL
    try:
        v = float(v)
    except (TypeError, ValueError):
        return NOVAL
    if math.isnan(v):
        return NOVAL
    return int(round(v * scale))


def _h(x):
    return hashlib.sha1(repr(x).encode()).hexdigest()[:10]


def project(net):
    lib = net.std_types.get("pipe", {})
    rows = []
    for n in NAMES:
        if n in lib:
            t = lib[n]
            rows.append([n, _code(t.get("inner_diameter_mm")), _code(t.get("k_mm"), 10.0), _code(t.get("u_w_per_m2k"))])
    other = sorted((k, sorted((a, repr(b)) for a, b in v.items())) for k, v in lib.items() if k not in NAMES)
    pipes = []
    for lab in sorted(net.pipe.index):
        r = net.pipe.loc[lab]
        st = r["std_type"]
        pipes.append(["" if (st is None or (isinstance(st, float) and math.isnan(st))) else str(st),
                      _code(r["inner_diameter_mm"]), _code(r["k_mm"], 10.0), _code(r["u_w_per_m2k"])])
    return {"lib": rows, "libdig": _h(other), "pipes": pipes}


def _rowdig(net, lab):
    r = net.pipe.loc[lab]
    return _h([(c, repr(r[c])) for c in net.pipe.columns if c not in ("name", "std_type")])


def replay(job):
    import pandapipes as pp
    from pandapipes.std_types import std_types as st
    net = pp.create_empty_network(fluid="water")
    j = [pp.create_junction(net, 5, 300) for _ in range(2)]
    st.create_std_type(net, "pipe", "T1", typedata({"d": 80, "k": 2, "u": NOVAL}))
    case = {"id": job["id"], "hist": job["hist"], "pre": project(net), "events": []}
    for op in job["hist"]:
        ev = dict(op)
        o = op["op"]
        ev["rowdig"] = ev["pardig"] = ""
        try:
            if o == "create_std_type":
                st.create_std_type(net, "pipe", op["name"], typedata(op["data"]), overwrite=bool(op["overwrite"]))
            elif o == "delete_std_type":
                st.delete_std_type(net, op["name"], "pipe")
            elif o == "create_pipe":
                kw = {}
                if op["k"] != NOVAL:
                    kw["k_mm"] = op["k"] / 10.0
                if op["u"] != NOVAL:
                    kw["u_w_per_m2k"] = float(op["u"])
                lab = pp.create_pipe(net, j[0], j[1], op["name"], length_km=0.3, **kw)
                if not kw:
                    # the equivalent call with the type's parameters, on a scratch copy of the net
                    import copy
                    n2 = copy.deepcopy(net)
                    t = n2.std_types["pipe"][op["name"]]
                    kw2 = dict(inner_diameter_mm=t["inner_diameter_mm"], outer_diameter_mm=t["outer_diameter_mm"], k_mm=t["k_mm"])
                    if "u_w_per_m2k" in t:
                        kw2["u_w_per_m2k"] = t["u_w_per_m2k"]
                    else:
                        kw2["u_w_per_m2k"] = float("nan")
                    l2 = pp.create_pipe_from_parameters(n2, j[0], j[1], 0.3, text_k=0, **kw2)
                    ev["rowdig"], ev["pardig"] = _rowdig(net, lab), _rowdig(n2, l2)
            elif o == "create_pipe_from_parameters":
                pp.create_pipe_from_parameters(net, j[0], j[1], 0.3, inner_diameter_mm=float(op["d"]), k_mm=op["k"] / 10.0, u_w_per_m2k=float(op["u"]))
            elif o == "change_std_type":
                labs = sorted(net.pipe.index)
                st.change_std_type(net, labs[op["row"] - 1], op["name"], "pipe")
            ev["outcome"] = "ok"
        except Exception as e:  # noqa
            ev["outcome"] = "raised"
            ev["exc"] = type(e).__name__
        ev["post"] = project(net)
        case["events"].append(ev)
    return case


def gen(consts, simulate=None, depth=None, seed=0):
    cfg = "_std_%d.cfg" % os.getpid()
    with open(os.path.join(tlc.SPEC_DIR, cfg), "w") as f:
        f.write("SPECIFICATION Spec\nCONSTANTS\n" + "".join("  %s %s\n" % kv for kv in consts.items()) +
                "  EmitOn = TRUE\n%sCHECK_DEADLOCK FALSE\n" % ("" if simulate else "INVARIANT Emit\n"))
    try:
        r = tlc.run("MC_StdType", cfg=cfg, workers=1, simulate=simulate, depth=depth, seed=seed, timeout=1800, check=False)
    finally:
        os.remove(os.path.join(tlc.SPEC_DIR, cfg))
    seen, out = set(), []
    for x in r.by_tag("STD"):
        k = json.dumps(x["hist"], sort_keys=True)
        if x["hist"] and k not in seen:
            seen.add(k)
            out.append(x["hist"])
    return out


CONSTS = {"Names": '= {"T1", "T2"}', "DVals": "= {80, 100}", "KVals": "= {2, 15}", "UVals": "= {5}"}


def validate(cases):
    sc = core.Scratch()
    try:
        p = sc.path("trace.ndjson")
        core.write_ndjson(p, cases)
        res = tlc.run("Trace_StdType", env={"TRACE_FILE": p}, check=True, timeout=3000)
        s = res.by_tag("SUMMARY")
        if not s or s[0]["cases"] != len(cases):
            raise tlc.TLCError("trace not consumed: %s" % s)
        return res, res.by_tag("FAIL")
    finally:
        sc.cleanup()


def part(V, prop, tr, sd, clauses):
    """model check the library machine, replay its histories (all of length 2, simulated longer ones), report the clauses in
    `clauses` (names without prefix) under property `prop`"""
    rnd = random.Random(sd + 13)
    mc = tlc.run("MC_StdType", workers=core.nworkers(), timeout=3000, check=True)
    sh = core.spec_hash("PPStd", "MC_StdType")
    h2 = core.cached("std2" + sh, lambda: gen(dict(CONSTS, MaxOps="= 2")))
    nsim = 300 if tr == "quick" else 4000
    h4 = core.cached("std4_%d_%d_%s" % (sd, nsim, sh), lambda: gen(dict(CONSTS, MaxOps="= 4"), simulate="num=%d" % nsim, depth=6, seed=sd + 5))
    h2 = [h for h in h2 if len(h) == 2]
    if tr == "quick" and len(h2) > 1500:
        h2 = rnd.sample(h2, 1500)
    jobs = [{"id": "st%d" % i, "hist": h} for i, h in enumerate(h2 + h4)]
    cases = core.pmap(replay, jobs, chunksize=32)
    res, fails = validate(cases)
    by_id = {c["id"]: c for c in cases}
    cc = collections.Counter()
    for f in fails:
        for cl in f["clauses"]:
            name = cl[0].split(".", 1)[1]
            cc[cl[0]] += 1
            if name in clauses:
                c = by_id[f["id"]]
                V.report("%s.std_%s" % (prop, name), cl[1], c, text="event=%s case=%s op=%s" % (f["ev"], f["id"], json.dumps(c["hist"][f["ev"] - 1])[:160]))
    return {"std_type_model_states": mc.distinct, "std_type_histories": len(cases), "std_type_calls": sum(len(c["events"]) for c in cases),
            "std_type_failing_clause_counts": dict(cc)}
