"""pytest plugin: record every pandapipes.pipeflow call the repository's own tests make (net projection, outcome,
hook events) so that the trace specifications can judge them (the CCF lesson: existing tests reach states their
assertions never look at).  Loaded with `-p harness.suite_plugin`; writes ndjson into $VERIF_SUITE_TRACE_DIR."""
import json, os, sys, traceback

_DIR = os.environ.get("VERIF_SUITE_TRACE_DIR")
_N = [0]
KNOWN_TABLES = {"junction", "pipe", "valve", "flow_control", "press_control", "pump", "compressor", "heat_exchanger",
                "heat_consumer", "circ_pump_mass", "circ_pump_pressure", "ext_grid", "sink", "source", "mass_storage"}


def _install():
    import importlib
    pf_mod = importlib.import_module("pandapipes.pipeflow")
    import pandapipes
    from pandapipes import _verif_hooks as vh
    from pandapipes.pf.pipeflow_setup import PipeflowNotConverged
    sys.path.insert(0, os.path.dirname(os.path.dirname(os.path.abspath(__file__))))
    from harness import netio, pf as hpf, c05
    orig = pf_mod.pipeflow
    depth = [0]

    def wrapped(net, *a, **kw):
        if depth[0] > 0 or not _DIR:
            return orig(net, *a, **kw)
        depth[0] += 1
        vh.drain()
        outcome, exc = "returned", None
        try:
            return orig(net, *a, **kw)
        except PipeflowNotConverged as e:
            outcome, exc = "PipeflowNotConverged", e
            raise
        except BaseException as e:  # noqa
            outcome, exc = "raised:%s:%s" % (type(e).__name__, str(e)[:80]), e
            raise
        finally:
            depth[0] -= 1
            try:
                ev = vh.drain()
                tables = {c.table_name() for c in net.component_list}
                opts = net.get("_options", {})
                if tables <= KNOWN_TABLES and not opts.get("transient", False) and opts.get("check_connectivity", True):
                    mode = opts.get("mode", "hydraulics")
                    rec = {"id": "suite%d.%d" % (os.getpid(), _N[0]), "test": os.environ.get("PYTEST_CURRENT_TEST", "")[:150],
                           "outcome": outcome, "oclass": hpf.oclass(outcome), "mode": mode,
                           "net": netio.project(net), "converged": bool(net.get("converged", False)),
                           "ambient": netio.limbs(opts.get("ambient_temperature", 293.15), netio.TSCALE),
                           "events": c05.project_events(ev), "fluid_gas": bool(net.fluid.is_gas)}
                    _N[0] += 1
                    with open(os.path.join(_DIR, "trace_%d.ndjson" % os.getpid()), "a") as f:
                        f.write(json.dumps(rec, separators=(",", ":")) + "\n")
            except Exception:  # recording must never disturb a test
                with open(os.path.join(_DIR, "errors_%d.txt" % os.getpid()), "a") as f:
                    f.write(traceback.format_exc() + "\n")
    pf_mod.pipeflow = wrapped
    pandapipes.pipeflow = wrapped
    for name, m in list(sys.modules.items()):
        if name.startswith("pandapipes") and m is not None and getattr(m, "pipeflow", None) is orig:
            setattr(m, "pipeflow", wrapped)


def pytest_configure(config):
    if _DIR:
        os.makedirs(_DIR, exist_ok=True)
        _install()
