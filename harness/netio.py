"""Abstract net <-> real pandapipes net.

build(an)    : create a real net from an abstract description (only public create_* calls)
project(net) : THE abstraction function: real tables (+ result tables) -> abstract record that
               the TLA+ trace specifications read.  It never evaluates a property; it only
               classifies cells (number / NaN) and quantises numbers to integer ticks.
"""
import math
import numpy as np
import pandas as pd

BRANCH_TABLES = ["pipe", "valve", "flow_control", "press_control", "pump", "compressor",
                 "heat_exchanger", "heat_consumer", "circ_pump_mass", "circ_pump_pressure"]
NODE_EL_TABLES = ["ext_grid", "sink", "source", "mass_storage"]
FROM_TO = {"pipe": ("from_junction", "to_junction"), "valve": ("junction", "element"),
           "flow_control": ("from_junction", "to_junction"),
           "press_control": ("from_junction", "to_junction"),
           "pump": ("from_junction", "to_junction"), "compressor": ("from_junction", "to_junction"),
           "heat_exchanger": ("from_junction", "to_junction"),
           "heat_consumer": ("from_junction", "to_junction"),
           "circ_pump_mass": ("return_junction", "flow_junction"),
           "circ_pump_pressure": ("return_junction", "flow_junction")}
ACTIVE_COL = {t: "in_service" for t in BRANCH_TABLES}
ACTIVE_COL["valve"] = "opened"

LIMB = 10 ** 6
# numbers are logged as [kind, hi, lo]: kind 0 = finite number hi*1e6+lo ticks, 1 = NaN, 2 = +-inf,
# 3 = no result table / cell at all.  (uniform shape: TLC cannot compare a tuple with a string)
NAN, INF, NORES = [1, 0, 0], [2, 0, 0], [3, 0, 0]


def limbs(x, scale):
    """x*scale rounded to an integer n, returned as [hi, lo] with n = hi*1e6 + lo, |lo| < 1e6,
    hi and lo carrying the sign of n; 'nan' / 'inf' strings for non-finite values."""
    if x is None:
        return NAN
    x = float(x)
    if math.isnan(x):
        return NAN
    if math.isinf(x):
        return INF
    n = int(round(x * scale))
    s = -1 if n < 0 else 1
    hi, lo = divmod(abs(n), LIMB)
    if hi >= 2 ** 31 - 1:
        raise OverflowError("value %r does not fit two limbs at scale %r" % (x, scale))
    return [0, s * hi, s * lo]


def tick(x, scale):
    """single 32-bit integer tick"""
    if x is None:
        return "nan"
    x = float(x)
    if math.isnan(x):
        return "nan"
    if math.isinf(x):
        return "inf"
    n = int(round(x * scale))
    if abs(n) >= 2 ** 31 - 1:
        raise OverflowError("value %r does not fit 32 bit at scale %r" % (x, scale))
    return n


MSCALE = 1e9     # mass flow: tick 1e-9 kg/s  (two limbs)
PSCALE = 1e9     # pressure: tick 1e-9 bar (two limbs)
TSCALE = 1e6     # temperature: 1e-6 K (two limbs)

HYD_COLS_BASE = ["p_from_bar", "p_to_bar", "mdot_from_kg_per_s", "mdot_to_kg_per_s"]
THERM_COLS = ["t_from_k", "t_to_k", "t_outlet_k"]


def _classify(vals):
    fin = [not (isinstance(v, float) and math.isnan(v)) for v in vals]
    if all(fin):
        return "num"
    if not any(fin):
        return "nan"
    return "mix"


def project(net, with_results=True, num=None):
    """abstract record of a net. num: optional dict of extra numeric projections to include."""
    an = {"J": [], "E": [], "N": []}
    has_res = with_results and "res_junction" in net and len(net.res_junction) == len(net.junction)
    jt = net.junction
    for lab, row in jt.iterrows():
        r = {"lab": int(lab), "svc": bool(row.in_service), "h": int(round(float(row.height_m) * 1000)),
             # oracle (DESIGN D2): ambient pressure at the junction's height from the documented barometric formula, 1e-9 bar ticks
             "pamb": limbs(1.01325 * (1 - float(row.height_m) * 0.0065 / 288.15) ** 5.255, PSCALE)}
        if has_res:
            rr = net.res_junction.loc[lab]
            r["p"] = limbs(rr.p_bar, PSCALE)
            r["t"] = limbs(rr.t_k, TSCALE)
        else:
            r["p"] = NORES
            r["t"] = NORES
        an["J"].append(r)
    for tbl in BRANCH_TABLES:
        if tbl not in net or not isinstance(net[tbl], pd.DataFrame):
            continue
        df = net[tbl]
        fcol, tcol = FROM_TO[tbl]
        rt = net.get("res_" + tbl) if with_results else None
        ok_res = rt is not None and isinstance(rt, pd.DataFrame) and len(rt) == len(df)
        for pos, (lab, row) in enumerate(df.iterrows()):
            r = {"tbl": tbl, "lab": int(lab), "a": int(row[fcol]), "b": int(row[tcol]),
                 "et": str(row["et"]) if tbl == "valve" else "",
                 "svc": bool(row[ACTIVE_COL[tbl]]),
                 "ca": bool(row["control_active"]) if "control_active" in df.columns else True,
                 "cj": int(row["controlled_junction"]) if tbl == "press_control" else 0,
                 "typ": str(row["type"]) if tbl in ("circ_pump_mass", "circ_pump_pressure") else "",
                 "sec": int(row["sections"]) if tbl == "pipe" else 1, "rn": 0, "rd": 0}
            # prescribed values (set-points) of the row, as ticks
            r["set1"], r["set2"] = NAN, NAN
            if tbl == "flow_control":
                r["set1"] = limbs(row["controlled_mdot_kg_per_s"], MSCALE)
            elif tbl == "press_control":
                r["set1"] = limbs(row["controlled_p_bar"], PSCALE)
            elif tbl == "circ_pump_mass":
                r["set1"] = limbs(row["mdot_flow_kg_per_s"], MSCALE)
                r["set2"] = limbs(row["p_flow_bar"], PSCALE)
            elif tbl == "circ_pump_pressure":
                r["set1"] = limbs(row["plift_bar"], PSCALE)
                r["set2"] = limbs(row["p_flow_bar"], PSCALE)
            elif tbl == "compressor":
                r["set1"] = limbs(row["pressure_ratio"], 1e6)
                # the ratio as a fraction of small integers, if it is one exactly (else 0/0: the ratio clause does not apply)
                from fractions import Fraction
                fr = Fraction(float(row["pressure_ratio"])).limit_denominator(64)
                exact = float(fr.numerator) / float(fr.denominator) == float(row["pressure_ratio"]) and 0 < fr.numerator <= 400
                r["rn"], r["rd"] = (int(fr.numerator), int(fr.denominator)) if exact else (0, 0)
            if ok_res:
                rr = rt.iloc[pos]
                hyd = [float(rr[c]) for c in HYD_COLS_BASE if c in rt.columns]
                r["hyd"] = _classify(hyd)
                th = [float(rr[c]) for c in THERM_COLS if c in rt.columns]
                r["th"] = _classify(th)
                r["mf"] = limbs(rr["mdot_from_kg_per_s"], MSCALE)
                r["mt"] = limbs(rr["mdot_to_kg_per_s"], MSCALE)
                r["pf"] = limbs(rr["p_from_bar"], PSCALE)
                r["pt"] = limbs(rr["p_to_bar"], PSCALE)
                r["v"] = limbs(rr["v_mean_m_per_s"], 1e9) if "v_mean_m_per_s" in rt.columns else NAN
                r["vd"] = limbs(rr["vdot_m3_per_s"], 1e12) if "vdot_m3_per_s" in rt.columns else NAN
                r["tf"] = limbs(rr["t_from_k"], TSCALE)
                r["tt"] = limbs(rr["t_to_k"], TSCALE)
                # further reported cells (gas: norm factors and end velocities; outlet temperature), compared cell by cell
                r["gx"] = [limbs(rr[c], 1e9) if c in rt.columns else NAN for c in
                           ("normfactor_from", "normfactor_to", "v_from_m_per_s", "v_to_m_per_s")] + [limbs(rr["t_outlet_k"], TSCALE)]
                hc = [c for c in rt.columns if c not in THERM_COLS
                      and c not in ("deltat_k", "qext_w", "compr_power_mw")]
                allc = [float(rr[c]) for c in hc]
                r["hydall"] = _classify(allc)
                # which hydraulic columns hold numbers in a mixed row (finding signatures)
                r["mixsig"] = tbl + ":" + ",".join(c for c, v in zip(hc, allc) if not math.isnan(v)) \
                    if r["hydall"] == "mix" else ""
            else:
                r["hyd"] = r["th"] = r["hydall"] = "nores"
                r["mixsig"] = ""
                r["mf"] = r["mt"] = r["pf"] = r["pt"] = r["v"] = r["vd"] = r["tf"] = r["tt"] = NORES
                r["gx"] = [NORES] * 5
            an["E"].append(r)
    for tbl in NODE_EL_TABLES:
        if tbl not in net or not isinstance(net[tbl], pd.DataFrame):
            continue
        df = net[tbl]
        rt = net.get("res_" + tbl) if with_results else None
        ok_res = rt is not None and isinstance(rt, pd.DataFrame) and len(rt) == len(df)
        for pos, (lab, row) in enumerate(df.iterrows()):
            r = {"tbl": tbl, "lab": int(lab), "j": int(row["junction"]), "svc": bool(row.in_service),
                 "typ": str(row["type"]) if tbl == "ext_grid" else ""}
            if tbl != "ext_grid":
                sc = float(row["scaling"]) if "scaling" in df.columns else 1.0
                r["want"] = limbs(float(row["mdot_kg_per_s"]) * sc, MSCALE)
            else:
                r["want"] = NAN
                r["pset"] = limbs(row["p_bar"], PSCALE)
            r["m"] = limbs(rt.iloc[pos]["mdot_kg_per_s"], MSCALE) if ok_res else NORES
            an["N"].append(r)
    return an


# --------------------------------------------------------------------------------------------
def build(an, fluid="water", params=None):
    """real net from an abstract description produced by the specification.
    params: optional dict of numeric parameters (lengths, demands, ...) keyed by row identity."""
    import pandapipes as pp
    params = params or {}
    net = pp.create_empty_network(fluid=fluid)
    for j in an["J"]:
        pp.create_junction(net, pn_bar=params.get("pn", 5.0), tfluid_k=params.get("tn", 330.0) + params.get("tn_step", 0.0) * j["lab"],
                           height_m=(params.get("heights") or {}).get(j["lab"], j.get("h", 0)), index=j["lab"], in_service=j["svc"])
    # pipes first among the branches is NOT forced: creation order is the description's order,
    # except that pipe-valves need their pipe to exist.
    pending = []
    for e in an["E"]:
        if e["tbl"] == "valve" and e["et"] == "pi" and e["b"] not in net.pipe.index:
            pending.append(e)
            continue
        _create_branch(pp, net, e, params)
    for e in pending:
        _create_branch(pp, net, e, params)
    for n in an["N"]:
        _create_nodeel(pp, net, n, params)
    return net


def _create_branch(pp, net, e, params):
    t, lab, a, b, svc = e["tbl"], e["lab"], e["a"], e["b"], e["svc"]
    q = params.get((t, lab), {})
    if t == "pipe":
        pp.create_pipe_from_parameters(net, a, b, length_km=q.get("length_km", 0.2),
                                       inner_diameter_mm=q.get("d_mm", 80.0), k_mm=q.get("k_mm", 0.1),
                                       # thick-walled pipes (heat is lost over the outer surface) get "do_mm" from the row parameters; the others
                                       # have no outer diameter entry at all (then the inner one counts)
                                       outer_diameter_mm=q.get("do_mm"),
                                       sections=e.get("sec", 1), u_w_per_m2k=q.get("u", 5.0),
                                       text_k=q.get("text", 283.0), index=lab, in_service=svc)
    elif t == "valve":
        pp.create_valve(net, a, b, et=e["et"], inner_diameter_mm=q.get("d_mm", 80.0), opened=svc,
                        loss_coefficient=q.get("zeta", 0.5), index=lab)
    elif t == "flow_control":
        pp.create_flow_control(net, a, b, controlled_mdot_kg_per_s=q.get("mdot", 0.3),
                               control_active=e["ca"], in_service=svc, index=lab)
    elif t == "press_control":
        pp.create_pressure_control(net, a, b, e["cj"], controlled_p_bar=q.get("p", 3.0),
                                   control_active=e["ca"], in_service=svc, index=lab)
    elif t == "pump":
        pp.create_pump(net, a, b, std_type=q.get("std_type", "P1"), in_service=svc, index=lab)
    elif t == "compressor":
        pp.create_compressor(net, a, b, pressure_ratio=q.get("ratio", 1.2), in_service=svc, index=lab)
    elif t == "heat_exchanger":
        pp.create_heat_exchanger(net, a, b, qext_w=q.get("qext", 500.0),
                                 inner_diameter_mm=q.get("d_mm", 80.0), in_service=svc, index=lab,
                                 loss_coefficient=q.get("zeta", 0.2))
    elif t == "heat_consumer":
        pp.create_heat_consumer(net, a, b, qext_w=q.get("qext", 2000.0),
                                controlled_mdot_kg_per_s=q.get("mdot", 0.2), in_service=svc, index=lab)
    elif t == "circ_pump_mass":
        pp.create_circ_pump_const_mass_flow(net, a, b, p_flow_bar=q.get("p", 5.0),
                                            mdot_flow_kg_per_s=q.get("mdot", 0.5),
                                            t_flow_k=None if e.get("typ") == "p" else q.get("t", 350.0), type=e.get("typ") or "auto",
                                            in_service=svc, index=lab)
    elif t == "circ_pump_pressure":
        pp.create_circ_pump_const_pressure(net, a, b, p_flow_bar=q.get("p", 5.0),
                                           plift_bar=q.get("plift", 1.0), t_flow_k=None if e.get("typ") == "p" else q.get("t", 350.0),
                                           type=e.get("typ") or "auto", in_service=svc, index=lab)
    else:
        raise ValueError(t)


def _create_nodeel(pp, net, n, params):
    t, lab, j, svc = n["tbl"], n["lab"], n["j"], n["svc"]
    q = params.get((t, lab), {})
    if t == "ext_grid":
        typ = n.get("typ") or "pt"
        pp.create_ext_grid(net, j, p_bar=q.get("p", 5.0) if "p" in typ else None,
                           t_k=q.get("t", 350.0) if "t" in typ else None, type=typ, in_service=svc,
                           index=lab)
    elif t == "sink":
        pp.create_sink(net, j, mdot_kg_per_s=q.get("mdot", 0.1), scaling=q.get("scaling", 1.0),
                       in_service=svc, index=lab)
    elif t == "source":
        pp.create_source(net, j, mdot_kg_per_s=q.get("mdot", 0.05), scaling=q.get("scaling", 1.0),
                         in_service=svc, index=lab)
    elif t == "mass_storage":
        pp.create_mass_storage(net, j, mdot_kg_per_s=q.get("mdot", 0.02), in_service=svc, index=lab)
    else:
        raise ValueError(t)
