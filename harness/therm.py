"""Designed-exact thermal conformance (C10, C11, thermal kernels of C07): scenarios of GenHyd with thermal attributes."""
import collections, json, math, os, random, time, logging, warnings
from . import core, tlc, designed as D, ref

warnings.filterwarnings("ignore")
logging.disable(logging.CRITICAL)

TH_SMALL = dict(ref.GEN_SMALL, ThermalOn="= TRUE", FdVals="= {1, 2, 3}", TeVals="= {1, 2}", DtVals="= {0, 5}",
                Demands="<- DemandsSmall", MaxSteps="= 2", MaxChords="= 0", HVals="= {1}", SecVals="= {1, 3}", ZetaVals="= {2}")
TH_BIG = dict(ref.GEN_BIG, ThermalOn="= TRUE", FdVals="= {1, 2, 3}", TeVals="= {1, 2}", DtVals="= {0, 5, 20}",
              MaxNodes="= 5", HVals="= {1, 2}", Demands="<- DemandsSmall", ChordFlows="<- ChordFlowsSmall")


def scenarios(tier, seed):
    sh = core.spec_hash("PPRefHyd", "PPRefTherm", "GenHyd", "Rat")
    if tier == "quick":
        small = core.cached("thsmall1" + sh, lambda: ref.gen(dict(TH_SMALL, MaxSteps="= 1"))[1])
        small += core.cached("thsmall2s%d" % seed + sh, lambda: ref.gen(TH_SMALL, simulate="num=250", depth=4, seed=seed + 55)[1])
    else:
        small = core.cached("thsmall" + sh, lambda: ref.gen(TH_SMALL)[1])
    big = []
    for steps, num in ((3, 80), (4, 120), (5, 120)):
        n = num if tier == "quick" else num * 10
        big += core.cached("thbig%d_%d_%d_%s" % (steps, n, seed, sh),
                           lambda: ref.gen(dict(TH_BIG, MaxSteps="= %d" % steps), simulate="num=%d" % n, depth=steps + 2,
                                           seed=seed * 5 + steps)[1])
    return small, big


def tobs(x):
    x = float(x)
    if math.isnan(x) or math.isinf(x):
        return [1, 0]
    return [0, int(round(x * 1000))]


def run_case(job):
    import pandapipes as pp
    from pandapipes.pf.pipeflow_setup import PipeflowNotConverged
    s = ref.normalise(job["s"])
    var = job.get("variant") or {}
    tabs = D.oracle_tables()
    s["hm"], s["pamb"] = tabs["hm"], tabs["pamb"]
    sb = dict(s)
    sb["flows"] = job["flows"]          # the designed flows (from the specification) needed to derive alpha and qext
    if "tn" in var:
        sb["tn"] = var["tn"]
    labels = {int(k): v for k, v in var["labels"].items()} if var.get("labels") else None
    net, meta = D.build(sb, labels=labels, var=var)
    mode = var.get("mode", "sequential")
    opts = {"use_numba": bool(var.get("numba", False)), "tol_p": 1e-10, "tol_m": 1e-10, "tol_res": 1e-8, "tol_T": 1e-9,
            "iter": 100, "mode": mode}
    if s.get("fm", "nikuradse") != "nikuradse":       # the scenario's friction model (roughness designed per pipe, see designed.k_designed)
        opts.update(friction_model=s["fm"], max_iter_colebrook=100, tolerance_colebrook=1e-13)
    opts.update(var.get("opts") or {})
    try:
        if mode == "heat":
            pp.pipeflow(net, **dict(opts, mode="hydraulics"))
            from . import hist as H
            sv = H.sol_vec(net)
            pp.pipeflow(net, sol_vec=sv, **opts)
        else:
            pp.pipeflow(net, **opts)
        outcome = "returned"
    except PipeflowNotConverged:
        outcome = "PipeflowNotConverged"
    except Exception as e:  # noqa
        outcome = "raised:%s" % type(e).__name__
    case = {"id": job["id"], "s": s, "variant": var, "outcome": outcome, "mode": mode, "flows": job["flows"]}
    if outcome != "returned":
        case["obs"] = {"nodes": [], "branches": [], "chords": []}
        return case

    def bobs(tbl, lab, lab_to=None, against=False):
        rt = net["res_" + tbl].loc[lab]
        o = {"tf": tobs(rt.t_from_k), "tt": tobs(rt.t_to_k), "tout": tobs(rt.t_outlet_k),
             "q": [0, int(round(float(net.heat_exchanger.loc[lab, "qext_w"])))] if tbl == "heat_exchanger" else [1, 0]}
        if lab_to is not None and lab_to != lab:
            r2 = net["res_" + tbl].loc[lab_to]
            o["tt"] = tobs(r2.t_to_k)
            if not against:         # flowing along the declared direction: the series' outlet is that of its last segment
                o["tout"] = tobs(r2.t_outlet_k)
        return o
    br = [bobs(*meta["branch"][k], against=((job["flows"][k - 1] > 0) == bool(s["nodes"][k - 1]["rev"])))
          for k in range(2, len(s["nodes"]) + 1)]
    ch = [bobs(*meta["chord"][i], against=((s["chords"][i - 1]["mc"] > 0) == bool(s["chords"][i - 1]["rev"])))
          for i in range(1, len(s["chords"]) + 1)]
    nd = [{"t": tobs(net.res_junction.loc[meta["node"][k], "t_k"])} for k in range(1, len(s["nodes"]) + 1)]
    case["obs"] = {"nodes": nd, "branches": br, "chords": ch}
    return case


def validate(cases):
    sc = core.Scratch()
    try:
        p = sc.path("trace.ndjson")
        core.write_ndjson(p, cases)
        res = tlc.run("Trace_Therm", env={"TRACE_FILE": p}, check=True, timeout=3000)
        s = res.by_tag("SUMMARY")
        if not s or s[0]["cases"] != len(cases):
            raise tlc.TLCError("trace not consumed: %s" % s)
        return res, res.by_tag("FAIL")
    finally:
        sc.cleanup()


def variants_for(prop, rnd):
    if prop == "C10":
        return [{"mode": "sequential"}, {"mode": "bidirectional"}, {"mode": "heat"},
                {"mode": "sequential", "blabels": rnd.choice(["desc", "gap", "big"]), "shuffle": rnd.randrange(1000), "tn": 330.0},
                {"mode": "bidirectional", "tn": 290.0, "split": True},
                {"mode": "sequential", "thickwall": True}, {"mode": "bidirectional", "thickwall": True, "numba": True}]
    if prop == "C07":
        return [{"mode": "sequential", "numba": True}, {"mode": "bidirectional", "numba": True}]
    return [{"mode": "sequential"}]


def run_check(prop, rule, nmax_quick=420, workers=None, extra_cov=None, prior_violations=0, clause_filter=None):
    t0 = time.time()
    tr, sd = core.tier(), core.seed()
    V = core.Verdicts(prop)
    rnd = random.Random(sd)
    cfgname = "_thmc_%d.cfg" % os.getpid()
    consts = dict(TH_SMALL, MaxSteps="= 2")
    with open(os.path.join(tlc.SPEC_DIR, cfgname), "w") as f:
        f.write("SPECIFICATION Spec\nCONSTANTS\n" + "".join("  %s %s\n" % kv for kv in consts.items()) +
                "  EmitOn = FALSE\nINVARIANT InvBalance\nINVARIANT InvOrientationFree\nINVARIANT InvIsothermal\nCHECK_DEADLOCK FALSE\n")
    try:
        mc = tlc.run("GenHyd", cfg=cfgname, workers=core.nworkers(), timeout=3000, check=True)
    finally:
        os.remove(os.path.join(tlc.SPEC_DIR, cfgname))
    small, big = scenarios(tr, sd)
    pool = (rnd.sample(small, min(len(small), nmax_quick // 3)) if tr == "quick" else small) + big
    jobs = []
    for i, r in enumerate(pool):
        for j, v in enumerate(variants_for(prop, rnd)):
            jobs.append({"id": "%s.%d.%d" % (prop, i, j), "s": r["s"], "flows": r["exp"]["m"], "variant": v})
    if tr == "quick" and len(jobs) > nmax_quick:
        jobs = rnd.sample(jobs, nmax_quick)
    cases = core.pmap(run_case, jobs, chunksize=6, workers=workers)
    by_id = {c["id"]: c for c in cases}
    res, fails = validate(cases)
    cc = collections.Counter()
    for f in fails:
        for cl in f["clauses"]:
            if clause_filter and not clause_filter(cl[0]):
                continue
            cc[cl[0]] += 1
            c = by_id[f["id"]]
            V.report(cl[0], cl[1], {"s": c["s"], "variant": c["variant"], "id": c["id"], "flows": c["flows"]},
                     text="element=%s case=%s variant=%s" % (cl[2], f["id"], json.dumps(c["variant"])[:120]))
    ok = sum(1 for c in cases if c["outcome"] == "returned")
    cov = {"states": mc.distinct, "transitions": mc.generated, "traces_validated_against_impl": len(cases),
           "samples": [{"scenario": cases[0]["s"], "variant": cases[0]["variant"], "observed": cases[0]["obs"]}],
           "scenarios_exhaustive_small_space": len(small), "scenarios_simulated": len(big), "runs": len(cases), "runs_returned": ok,
           "modes": dict(collections.Counter(c["mode"] for c in cases)),
           "reverse_flow_branches": sum(1 for c in cases for n in c["s"]["nodes"][1:] if n["rev"]),
           "failing_clause_counts": dict(cc), "trace_spec_states": res.distinct,
           "evaluations": len(cases), "distinct_nontrivial": sum(1 for c in cases if any(n.get("fd", 1) != 1 or n.get("dT", 0) for n in c["s"]["nodes"])),
           "rule": rule}
    if extra_cov:
        cov.update(extra_cov)
    rc = V.finish()
    core.write_evidence(prop, "model_checking", cov, time.time() - t0, len(V.violations) + prior_violations,
                        assumptions=["designed family with constant heat capacity 4000 J/kgK; heat-transfer coefficients derived by the harness from the "
                                     "documented exponential law for the designed decay factors; tolerance 2e-3 K (solver tol_T 1e-9)",
                                     "temperature-dependent heat capacity (mean-cp mixing weights) is not covered by the exact reference"])
    print("%s %s: reference-model states=%d, runs=%d (returned %d), violations=%d, known=%d, %.0fs"
          % (prop, tr, mc.distinct, len(cases), ok, len(V.violations), len(V.known), time.time() - t0))
    return rc


def replay_file(prop, path):
    rec = json.load(open(path))
    c = rec["case"]
    case = run_case({"id": c["id"], "s": c["s"], "variant": c["variant"], "flows": c["flows"]})
    res, fails = validate([case])
    for f in fails:
        print("FAIL", f)
    return 1 if fails else 0
