"""C17 (restructuring tools) and C16 (creation): MC_Edit behaviours replayed into the real toolbox / create functions."""
import json, os, time, random, collections
from . import core, tlc, edit

PROP = "C17"
KINDS_BY_PROP = {"C17": '{"reindex", "drop", "fuse", "select"}', "C16": '{"create", "bulk"}'}
ALL_KINDS = '{"reindex", "drop", "fuse", "select", "create", "bulk"}'


def gen(consts, simulate=None, depth=None, seed=0, timeout=1800):
    cfgname = "_edit_%d.cfg" % os.getpid()
    path = os.path.join(tlc.SPEC_DIR, cfgname)
    with open(path, "w") as f:
        f.write("SPECIFICATION Spec\nCONSTANTS\n")
        for k, v in consts.items():
            f.write("  %s %s\n" % (k, v))
        f.write("  EmitOn = TRUE\nCHECK_DEADLOCK FALSE\n")
    try:
        r = tlc.run("MC_Edit", cfg=cfgname, workers=1, simulate=simulate, depth=depth, seed=seed,
                    timeout=timeout, check=False)
    finally:
        os.remove(path)
    seen, out = set(), []
    for h in r.by_tag("EDIT"):
        k = json.dumps(h, sort_keys=True)
        if k not in seen:
            seen.add(k)
            out.append({"base": h["base"], "hist": h["hist"]})
    return r, out


def validate(cases):
    sc = core.Scratch()
    try:
        p = sc.path("trace.ndjson")
        core.write_ndjson(p, cases)
        res = tlc.run("Trace_Edit", env={"TRACE_FILE": p}, check=True, timeout=3000)
        s = res.by_tag("SUMMARY")
        if not s or s[0]["cases"] != len(cases):
            raise tlc.TLCError("trace not consumed: %s" % s)
        return res, res.by_tag("FAIL")
    finally:
        sc.cleanup()


def run(prop, extra_cov=None, prior=0):
    t0 = time.time()
    tr, sd = core.tier(), core.seed()
    V = core.Verdicts(prop)
    rnd = random.Random(sd)
    kinds = KINDS_BY_PROP[prop]
    # 1. model level: every operation keeps the abstract net referentially intact (exhaustive, 2 ops deep in thorough)
    cfgname = "_editmc_%d.cfg" % os.getpid()
    with open(os.path.join(tlc.SPEC_DIR, cfgname), "w") as f:
        f.write("SPECIFICATION Spec\nCONSTANTS\n  MaxOps = %d\n  OpKinds = %s\n  BaseIds = {1, 2, 3}\n  EmitOn = FALSE\n"
                "INVARIANT InvRefOK\nINVARIANT InvUnique\nINVARIANT InvPipeValves\nPROPERTY RelabelKeepsIds\nCHECK_DEADLOCK FALSE\n"
                % (2 if tr == "thorough" else 1,
                   ('{"reindex", "drop", "fuse", "select", "create"}' if prop == "C17" else '{"create"}') if tr == "thorough" else kinds))
    try:
        mc = tlc.run("MC_Edit", cfg=cfgname, workers=core.nworkers(), timeout=3000, check=True)
    finally:
        os.remove(os.path.join(tlc.SPEC_DIR, cfgname))
    # 2. spec -> code: every single operation on every base net (exhaustive) + simulated longer histories
    sh = core.spec_hash("PPNet", "PPEdit", "MC_Edit")
    h1 = core.cached("edit1" + prop + sh, lambda: gen({"MaxOps": "= 1", "OpKinds": "= " + kinds, "BaseIds": "= {1, 2, 3}"})[1])
    nsim = 40 if tr == "quick" else 600
    h3 = core.cached("edit3%s_%d_%s" % (prop, sd, tr) + sh, lambda: gen(
        {"MaxOps": "= 3", "OpKinds": "= " + (ALL_KINDS if prop == "C17" else kinds), "BaseIds": "= {1, 2, 3}"},
        simulate="num=%d" % nsim, depth=4, seed=sd + 3)[1])
    if tr == "quick" and len(h1) > 2500:
        h1 = rnd.sample(h1, 2500)
    jobs = [dict(id="e%d" % i, **h) for i, h in enumerate(h1 + h3)]
    cases = core.pmap(edit.replay, jobs, chunksize=8)
    by_id = {c["id"]: c for c in cases}
    res, fails = validate(cases)
    cc, notes = collections.Counter(), collections.Counter()
    for f in fails:
        for cl in f["clauses"]:
            if cl[0].startswith("NOTE."):
                notes[cl[0] + ":" + cl[1]] += 1
                continue
            if not cl[0].startswith(prop):
                continue        # the other property's clauses are judged by its own check
            cc[cl[0]] += 1
            c = by_id[f["id"]]
            V.report(cl[0], cl[1], c, text="event=%s case=%s op=%s" % (f["ev"], f["id"], json.dumps(c["hist"][f["ev"] - 1])[:200]))
    nev = sum(len(c["events"]) for c in cases)
    opcount = collections.Counter(e["op"] for c in cases for e in c["events"])
    cov = {"states": mc.distinct, "transitions": mc.generated, "traces_validated_against_impl": len(cases),
           "samples": [{"base": cases[0]["base"], "hist": cases[0]["hist"]}, {"base": cases[-1]["base"], "hist": cases[-1]["hist"]}],
           "operations_replayed": nev, "operations_by_kind": dict(opcount),
           "single_op_histories": len(h1), "simulated_3op_histories": len(h3),
           "conformance_notes": dict(notes), "failing_clause_counts": dict(cc), "trace_spec_states": res.distinct,
           "evaluations": nev, "distinct_nontrivial": len(cases),
           "rule": "every single operation (all argument choices of MC_Edit) on 3 curated base nets + simulated 3-op histories; "
                   "all distinct histories are non-trivial (each performs at least one API call on a populated net)"}
    if extra_cov:
        cov.update(extra_cov)
    rc = V.finish()
    core.write_evidence(prop, "model_checking", cov, time.time() - t0, len(V.violations) + prior,
                        assumptions=["row identity is carried in the name column; `rest` digests cover all other columns, `rtag` the stored result row",
                                     "base nets are the three nets of MC_Edit.BaseNet built with create_* (harness/edit.base_net)"])
    print("%s %s: model states=%d, histories=%d, operations=%d, violations=%d, known=%d, notes=%s, %.0fs"
          % (prop, tr, mc.distinct, len(cases), nev, len(V.violations), len(V.known), dict(notes), time.time() - t0))
    return rc


def subnet_part(V, tr, sd):
    """a subnet made of a complete supplied region reproduces that region's results (Trace_PF.C17_Subnet)"""
    import random
    from . import c04, c01, pf
    rnd = random.Random(sd + 3)
    emit = dict(MaxJ="= 4", MaxE="= 4", MaxN="= 3", MaxPV="= 2", Kinds="<- KindsAll", NKinds="<- NKindsAll", TogJ="= TRUE")
    r, nets = c04.gen_nets(emit, simulate="num=%d" % (40 if tr == "quick" else 700), depth=18, seed=5000 + sd, timeout=1200)
    nets = [n for n in nets if n["sup"]]
    cap = 900 if tr == "quick" else 25000
    if len(nets) > cap:
        nets = rnd.sample(nets, cap)
    jobs = [{"id": "sub%d" % i, "an": n["net"], "params": c01.row_params(n["net"]), "opts": dict(c04.PF_OPTS), "check": ["C17S"],
             "stored_options": (i % 2 == 1)}
            for i, n in enumerate(nets)]
    cases = [c for c in core.pmap(pf.run_case_subnet, jobs, chunksize=16) if "skip" not in c]
    res, fails = c04.validate(cases)
    by_id = {c["id"]: c for c in cases}
    for f in fails:
        for cl in f["clauses"]:
            V.report(cl[0], cl[1], by_id[f["id"]], text="detail=%s case=%s" % (cl[2:], f["id"]))
    return {"subnet_cases": len(cases), "subnet_pairs_both_returned": sum(1 for c in cases if c.get("soutcome") == "returned"),
            "subnet_partial_regions": sum(1 for c in cases if "snet" in c and len(c["snet"]["J"]) < len(c["net"]["J"]))}


def hashseed_part(V, tr, sd):
    """tools that walk over a set of table names (create_continuous_elements_index): every processing order must give the same,
    correct relabelling.  Model: MC_ContAll (all orders, exhaustive); code: the same calls under several PYTHONHASHSEED values."""
    from . import hashseed
    mc = tlc.run("MC_ContAll", workers=4, timeout=1200, check=True)
    coded = tlc.run("MC_ContAll", cfg="MC_ContAll_coded.cfg", workers=1, timeout=1200, check=False)
    jobs = []
    for b in (1, 2, 3):
        for st in (0, 3):
            jobs.append({"id": "ca%d.%d" % (b, st), "base": b, "hist": [{"op": "continuous_all", "tbl": "all", "start": st}]})
            jobs.append({"id": "cb%d.%d" % (b, st), "base": b, "hist": [{"op": "reindex", "tbl": "junction", "lk": [[b + 1 if b < 3 else 7, 9]]},
                                                                        {"op": "continuous_all", "tbl": "all", "start": st}]})
    seeds = list(range(8)) if tr == "quick" else list(range(40))
    cases = [c for cs in core.pmap(hashseed.run_seed, [(s, jobs) for s in seeds], chunksize=1, workers=8) for c in cs]
    res, fails = validate(cases)
    by_id = {c["id"]: c for c in cases}
    nf = 0
    for f in fails:
        for cl in f["clauses"]:
            if cl[0].startswith("C17"):
                nf += 1
                c = by_id[f["id"]]
                V.report(cl[0], cl[1], c, text="event=%s case=%s hashseed=%s exc=%s" % (f["ev"], f["id"], c.get("hashseed"), c["events"][f["ev"] - 1].get("exc")))
    return {"order_model_states": mc.distinct, "order_model_as_coded_violates": coded.invariant_violated,
            "hash_seeds": len(seeds), "hash_seed_cases": len(cases), "hash_seed_failures": nf}


def main():
    V = core.Verdicts("C17")
    extra = subnet_part(V, core.tier(), core.seed())
    extra.update(hashseed_part(V, core.tier(), core.seed()))
    rc1 = V.finish()
    rc2 = run("C17", extra_cov=extra, prior=len(V.violations))
    return 1 if (rc1 or rc2) else 0


def replay(path, prop="C17"):
    rec = json.load(open(path))
    c = rec["case"]
    case = edit.replay({"id": c["id"], "base": c["base"], "hist": c["hist"]})
    res, fails = validate([case])
    bad = 0
    for f in fails:
        print("FAIL", f)
        bad += sum(1 for cl in f["clauses"] if cl[0].startswith(prop))
    return 1 if bad else 0
