"""Designed-exact gas family (C02 gases; spec/PPRefGas.tla, GenGas.tla, Trace_Gas.tla)."""
import collections, json, math, os, random, time, logging, warnings
from fractions import Fraction
from . import core, tlc, designed as D, ref

warnings.filterwarnings("ignore")
logging.disable(logging.CRITICAL)
K_COMP = D.DSTAR / 10 ** 1.43          # 1/(2 log10(d/k) + 1.14)^2 = 1/16
LEVEL_M = 20000.0 / 981.0              # one height level: g * dh / (2e5) = 1e-3
HEIGHT = {1: 0.0, 2: LEVEL_M, 3: -LEVEL_M}


def gas_fluid():
    from pandapipes.properties.fluids import create_constant_fluid
    return create_constant_fluid("designed_gas", "gas", density=1.01325, viscosity=D.ETA, heat_capacity=2000.0, molar_mass=16.0,
                                 compressibility=1.0, der_compressibility=0.0)


def gen(consts, simulate=None, depth=None, seed=0):
    cfg = "_gas_%d.cfg" % os.getpid()
    with open(os.path.join(tlc.SPEC_DIR, cfg), "w") as f:
        f.write("SPECIFICATION Spec\nCONSTANTS\n" + "".join("  %s %s\n" % kv for kv in consts.items()) +
                "  EmitOn = TRUE\n%sCHECK_DEADLOCK FALSE\n" % ("" if simulate else "INVARIANT Emit\n"))
    try:
        r = tlc.run("GenGas", cfg=cfg, workers=1, simulate=simulate, depth=depth, seed=seed, timeout=1800, check=False)
    finally:
        os.remove(os.path.join(tlc.SPEC_DIR, cfg))
    seen, out = set(), []
    for x in r.by_tag("GAS"):
        k = json.dumps(x["s"], sort_keys=True)
        if k not in seen:
            seen.add(k)
            out.append(x)
    return out


G_SMALL = {"MaxNodes": "= 3", "PVals": "= {500, 1200, 1300}", "HVals": "= {1, 2, 3}", "Demands": "= {0, 1, 2}", "NVals": "= {0, 160}",
           "Kinds": "<- KindsAll", "MaxSteps": "= 2"}
G_BIG = {"MaxNodes": "= 6", "PVals": "= {300, 500, 700, 800, 1200, 1300, 2000}", "HVals": "= {1, 2, 3}", "Demands": "= {0, 1, 2, 4}",
         "NVals": "= {0, 160, 1600}", "Kinds": "<- KindsAll"}


def run_case(job):
    import pandapipes as pp
    from pandapipes.pf.pipeflow_setup import PipeflowNotConverged
    s = job["s"]
    var = job.get("variant") or {}
    zeta = job["zeta"]
    nodes = s["nodes"]
    net = pp.create_empty_network("dgas", fluid=gas_fluid())
    lab = {k + 1: (var.get("labels") or list(range(len(nodes))))[k] for k in range(len(nodes))}
    for k, n in enumerate(nodes, start=1):
        pp.create_junction(net, pn_bar=var.get("pn", 3.0), tfluid_k=273.15, height_m=HEIGHT[n["h"]], index=lab[k])
    pamb = {str(i): D.pamb_ubar(h) for i, h in HEIGHT.items()}          # oracle: documented barometric formula
    pp.create_ext_grid(net, lab[1], p_bar=nodes[0]["P"] / 100.0 - pamb[str(nodes[0]["h"])] / 1e6, t_k=273.15, type="pt")
    meta = {}
    for k, n in enumerate(nodes, start=1):
        if k == 1:
            continue
        z = zeta[k - 1][0] / zeta[k - 1][1]
        a, b = (lab[k], lab[n["par"]]) if n["rev"] else (lab[n["par"]], lab[k])
        if n["kind"] == "pipe":
            meta[k] = ("pipe", pp.create_pipe_from_parameters(net, a, b, length_km=n["N"] * D.DSTAR / 1000.0, inner_diameter_mm=D.DSTAR * 1000.0,
                                                              k_mm=K_COMP * 1000.0, loss_coefficient=z, sections=1))
        else:
            meta[k] = ("valve", pp.create_valve(net, a, b, "ju", inner_diameter_mm=D.DSTAR * 1000.0, loss_coefficient=z))
        if n["d"] > 0:
            pp.create_sink(net, lab[k], float(n["d"]))
    opts = {"use_numba": bool(var.get("numba", False)), "tol_p": 1e-10, "tol_m": 1e-10, "tol_res": 1e-8, "iter": 200,
            "nonlinear_method": var.get("method", "constant")}
    try:
        pp.pipeflow(net, **opts)
        outcome = "returned"
    except PipeflowNotConverged:
        outcome = "PipeflowNotConverged"
    except Exception as e:  # noqa
        outcome = "raised:%s" % type(e).__name__
    case = {"id": job["id"], "s": dict(s, hm={"1": 0, "2": 1, "3": -1}, pamb=pamb), "zeta": zeta, "variant": var, "outcome": outcome,
            "obs": {"nodes": [], "branches": []}}
    if outcome != "returned":
        return case
    o = ref.obs
    case["obs"]["nodes"] = [{"p": o(net.res_junction.loc[lab[k], "p_bar"], 1e6)} for k in range(1, len(nodes) + 1)]
    for k in range(2, len(nodes) + 1):
        tbl, l = meta[k]
        r = net["res_" + tbl].loc[l]
        case["obs"]["branches"].append({"pf": o(r.p_from_bar, 1e6), "pt": o(r.p_to_bar, 1e6), "mf": o(r.mdot_from_kg_per_s, 1e6),
                                        "nf": o(r.normfactor_from, 1e9), "nt": o(r.normfactor_to, 1e9),
                                        "vf": o(r.v_from_m_per_s, 1e6), "vt": o(r.v_to_m_per_s, 1e6)})
    return case


def validate(cases):
    sc = core.Scratch()
    try:
        p = sc.path("trace.ndjson")
        core.write_ndjson(p, cases)
        res = tlc.run("Trace_Gas", env={"TRACE_FILE": p}, check=True, timeout=3000)
        s = res.by_tag("SUMMARY")
        if not s or s[0]["cases"] != len(cases):
            raise tlc.TLCError("trace not consumed: %s" % s)
        return res, res.by_tag("FAIL")
    finally:
        sc.cleanup()


def scenarios(tier, seed):
    sh = core.spec_hash("Rat", "PPRefGas", "GenGas")
    if tier == "quick":
        small = core.cached("gassmall1" + sh, lambda: gen(dict(G_SMALL, MaxSteps="= 1")))
        small += core.cached("gassmall2s%d" % seed + sh, lambda: gen(G_SMALL, simulate="num=200", depth=4, seed=seed + 77))
    else:
        small = core.cached("gassmall" + sh, lambda: gen(G_SMALL))
    big = []
    for steps, num in ((3, 80), (4, 120), (5, 120)):
        n = num if tier == "quick" else num * 10
        big += core.cached("gasbig%d_%d_%d_%s" % (steps, n, seed, sh),
                           lambda: gen(dict(G_BIG, MaxSteps="= %d" % steps), simulate="num=%d" % n, depth=steps + 2, seed=seed * 3 + steps))
    return small, big


def gas_part(V, prop, tr, sd, variants):
    """run the designed gas scenarios under the given variants; report failing clauses for `prop`"""
    rnd = random.Random(sd + 9)
    small, big = scenarios(tr, sd)
    pool = (rnd.sample(small, min(len(small), 120)) if tr == "quick" else small) + big
    jobs = [{"id": "%s.g%d.%d" % (prop, i, j), "s": r["s"], "zeta": r["zeta"], "variant": v}
            for i, r in enumerate(pool) for j, v in enumerate(variants)]
    if tr == "quick" and len(jobs) > 400:
        jobs = rnd.sample(jobs, 400)
    cases = core.pmap(run_case, jobs, chunksize=8)
    by_id = {c["id"]: c for c in cases}
    res, fails = validate(cases)
    for f in fails:
        for cl in f["clauses"]:
            c = by_id[f["id"]]
            V.report(cl[0], cl[1], c, text="element=%s case=%s variant=%s" % (cl[2], f["id"], json.dumps(c["variant"])))
    return {"gas_scenarios_small": len(small), "gas_scenarios_simulated": len(big), "gas_runs": len(cases),
            "gas_runs_returned": sum(1 for c in cases if c["outcome"] == "returned"), "gas_failures": len(fails)}
