"""Replay of call histories (MC_Hist behaviours) on real net objects; shared by C05 / C12 / C15."""
import copy, hashlib, importlib, json, logging, math, os, warnings, io
import numpy as np
import pandas as pd

warnings.filterwarnings("ignore")
logging.disable(logging.CRITICAL)


def net_heating_loop():
    import pandapipes as pp
    net = pp.create_empty_network(fluid="water")
    j = [pp.create_junction(net, 5, 330, name="j%d" % i) for i in range(5)]
    pp.create_circ_pump_const_pressure(net, j[4], j[0], p_flow_bar=5, plift_bar=1.5, t_flow_k=360, type="pt")
    pp.create_pipe_from_parameters(net, j[0], j[1], 0.4, 80, k_mm=0.1, u_w_per_m2k=8, text_k=283, sections=3)
    pp.create_heat_exchanger(net, j[1], j[2], qext_w=30000, inner_diameter_mm=80, loss_coefficient=2)
    pp.create_pipe_from_parameters(net, j[2], j[3], 0.3, 80, k_mm=0.1, u_w_per_m2k=8, text_k=283, sections=2)
    pp.create_valve(net, j[3], j[4], "ju", 80, loss_coefficient=5)
    pp.create_heat_consumer(net, j[1], j[3], qext_w=10000, controlled_mdot_kg_per_s=0.3)
    return net, {"break": ("junction", "in_service", list(net.junction.index), False),
                 "edit": ("pipe", "length_km", [0], 0.8),
                 "struct": ("heat_consumer", "in_service", [0], False)}


def net_branched():
    import pandapipes as pp
    net = pp.create_empty_network(fluid="water")
    j = [pp.create_junction(net, 4, 320, height_m=h) for h in (0, 5, 5, -3, 0)]
    pp.create_ext_grid(net, j[0], 6, 350, type="pt")
    pp.create_pipe_from_parameters(net, j[0], j[1], 0.5, 100, k_mm=0.2, u_w_per_m2k=3, sections=2)
    pp.create_pipe_from_parameters(net, j[1], j[2], 0.3, 60, k_mm=0.2, u_w_per_m2k=3)
    pp.create_pipe_from_parameters(net, j[1], j[3], 0.7, 60, k_mm=0.2, u_w_per_m2k=3, sections=4)
    pp.create_pipe_from_parameters(net, j[2], j[3], 0.2, 60, k_mm=0.2, u_w_per_m2k=3)
    pp.create_pump(net, j[3], j[4], "P1")
    pp.create_sink(net, j[2], 1.5)
    pp.create_sink(net, j[4], 2.0)
    pp.create_source(net, j[3], 0.4)
    return net, {"break": ("ext_grid", "in_service", [0], False), "edit": ("sink", "mdot_kg_per_s", [1], 3.5),
                 "struct": ("pipe", "in_service", [3], False)}


def net_gas():
    import pandapipes as pp
    net = pp.create_empty_network(fluid="lgas")
    j = [pp.create_junction(net, 1, 290) for _ in range(5)]
    pp.create_ext_grid(net, j[0], 1.2, 290, type="pt")
    for a, b, l in ((0, 1, 1.0), (1, 2, 2.0), (2, 3, 1.0), (3, 0, 3.0), (2, 4, 0.5)):
        pp.create_pipe_from_parameters(net, j[a], j[b], l, 100, k_mm=0.05)
    pp.create_sink(net, j[2], 0.02)
    pp.create_sink(net, j[4], 0.03)
    return net, {"break": ("ext_grid", "in_service", [0], False), "edit": ("pipe", "length_km", [1], 5.0),
                 "struct": ("pipe", "in_service", [3], False)}


def net_versatility():
    import pandapipes.networks as nw
    net = nw.gas_versatility()
    return net, {"break": ("ext_grid", "in_service", list(net.ext_grid.index), False),
                 "edit": ("pipe", "length_km", [1], 5.0), "struct": ("pipe", "in_service", [2], False)}


def net_deadend_source():
    """a source at a dead-end junction: nobody defines the temperature of the injected water, the thermal problem has no solution
    (hydraulics are fine)"""
    import pandapipes as pp
    net = pp.create_empty_network(fluid="water")
    j = [pp.create_junction(net, 5, 300) for _ in range(4)]
    pp.create_ext_grid(net, j[0], 5, 350, type="pt")
    pp.create_pipe_from_parameters(net, j[0], j[1], 0.5, 100, k_mm=0.1, u_w_per_m2k=10, text_k=280)
    pp.create_pipe_from_parameters(net, j[1], j[2], 0.5, 100, k_mm=0.1, u_w_per_m2k=10, text_k=280)
    pp.create_pipe_from_parameters(net, j[3], j[1], 0.5, 100, k_mm=0.1, u_w_per_m2k=10, text_k=280)
    pp.create_sink(net, j[2], 2.0)
    pp.create_source(net, j[3], 0.5)
    return net, {"break": ("ext_grid", "in_service", [0], False), "edit": ("sink", "mdot_kg_per_s", [0], 2.5),
                 "struct": ("pipe", "in_service", [1], False)}


def net_p_only():
    """pressure is fixed but no element fixes a temperature: hydraulics are fine, every thermal stage must fail"""
    import pandapipes as pp
    net = pp.create_empty_network(fluid="water")
    j = [pp.create_junction(net, 5, 300) for _ in range(3)]
    pp.create_ext_grid(net, j[0], 5, type="p")
    pp.create_pipe_from_parameters(net, j[0], j[1], 0.5, 100, k_mm=0.1, u_w_per_m2k=10, text_k=280)
    pp.create_pipe_from_parameters(net, j[1], j[2], 0.5, 100, k_mm=0.1, u_w_per_m2k=10, text_k=280)
    pp.create_sink(net, j[2], 2.0)
    return net, {"break": ("ext_grid", "in_service", [0], False), "edit": ("sink", "mdot_kg_per_s", [0], 2.5),
                 "struct": ("pipe", "in_service", [1], False)}


def net_twoarea():
    """two separate supplied areas, each with its own external grid (switching one grid changes what is supplied, not whether the
    calculation is feasible)"""
    import pandapipes as pp
    net = pp.create_empty_network(fluid="water")
    j = [pp.create_junction(net, 5, 310) for _ in range(6)]
    pp.create_ext_grid(net, j[0], 5.5, 330, type="pt")
    pp.create_ext_grid(net, j[3], 4.5, 340, type="pt")
    pp.create_pipe_from_parameters(net, j[0], j[1], 0.4, 90, k_mm=0.1, u_w_per_m2k=4)
    pp.create_pipe_from_parameters(net, j[1], j[2], 0.3, 80, k_mm=0.1, u_w_per_m2k=4)
    pp.create_pipe_from_parameters(net, j[3], j[4], 0.5, 90, k_mm=0.1, u_w_per_m2k=4)
    pp.create_pipe_from_parameters(net, j[4], j[5], 0.2, 80, k_mm=0.1, u_w_per_m2k=4)
    pp.create_sink(net, j[2], 0.8)
    pp.create_sink(net, j[5], 0.5)
    return net, {"break": ("ext_grid", "in_service", [0, 1], False), "edit": ("sink", "mdot_kg_per_s", [0], 1.2),
                 "struct": ("pipe", "in_service", [1], False)}


def net_valved():
    """water net with an open valve and an active flow controller next to pipes (branches whose momentum equation has structurally
    zero Jacobian entries)"""
    import pandapipes as pp
    net = pp.create_empty_network(fluid="water")
    j = [pp.create_junction(net, 5, 310) for _ in range(5)]
    pp.create_ext_grid(net, j[0], 5.5, 330, type="pt")
    pp.create_pipe_from_parameters(net, j[0], j[1], 0.4, 90, k_mm=0.1, u_w_per_m2k=4)
    pp.create_valve(net, j[1], j[2], "ju", 80, loss_coefficient=0.0)
    pp.create_pipe_from_parameters(net, j[2], j[3], 0.3, 80, k_mm=0.1, u_w_per_m2k=4)
    pp.create_flow_control(net, j[1], j[4], 0.3)
    pp.create_pipe_from_parameters(net, j[4], j[3], 0.5, 60, k_mm=0.1, u_w_per_m2k=4)
    pp.create_pipe_from_parameters(net, j[2], j[4], 0.2, 60, k_mm=0.1, u_w_per_m2k=4)
    pp.create_sink(net, j[3], 1.0)
    pp.create_sink(net, j[4], 0.2)
    return net, {"break": ("ext_grid", "in_service", [0], False), "edit": ("sink", "mdot_kg_per_s", [0], 1.6),
                 "struct": ("pipe", "in_service", [3], False)}


def net_branched_relabel():
    """the branched net; its structural edit gives the second sink another index label (7 instead of 1)"""
    net, knobs = net_branched()
    return net, dict(knobs, struct=("sink", "__index__", [1], 7), edit=("sink", "mdot_kg_per_s", [0], 2.1))   # the parameter edit addresses the other sink


NETS = {"twoarea": net_twoarea, "valved": net_valved, "branched_relabel": net_branched_relabel, "p_only": net_p_only, "deadend": net_deadend_source, "heating_loop": net_heating_loop, "branched": net_branched, "gas": net_gas, "versatility": net_versatility}
THERMAL_NETS = ("heating_loop", "branched")


def _norm_obj(v):
    """JSON has no tuples: nested tuples/lists are the same value; enums print as their value"""
    if isinstance(v, (list, tuple)):
        return [_norm_obj(x) for x in v]
    if isinstance(v, np.ndarray):
        return [_norm_obj(x) for x in v.tolist()]
    if v is None or (isinstance(v, float) and np.isnan(v)):
        return "null"          # None and NaN are both "no entry"
    return v if isinstance(v, (int, float, str, bool, type(None))) else str(v)


def table_digest_levels(df):
    """(exact, q15, q15n): exact bits; floats rounded to 14 decimal places; additionally inf and nan unified"""
    out = []
    for level in (0, 1, 2):
        h = hashlib.sha1()
        h.update(repr(list(df.columns)).encode())
        h.update(repr([str(t) for t in df.dtypes]).encode())
        h.update(repr(list(df.index)).encode() + str(df.index.dtype).encode())
        for c in df.columns:
            col = df[c]
            if col.dtype.kind == "f":
                v = np.ascontiguousarray(col.values, dtype=float)
                if level >= 1:
                    v = np.round(v, 14) + 0.0
                if level >= 2:
                    v = np.where(np.isinf(v), np.nan, v)
                h.update(v.tobytes())
            else:
                h.update(repr([_norm_obj(x) for x in col.values]).encode())
        out.append(h.hexdigest()[:12])
    return out


def structure_digest(df):
    """everything but the float values: columns, dtypes, index, non-float cells, NaN pattern of float cells"""
    h = hashlib.sha1()
    h.update(repr(list(df.columns)).encode())
    h.update(repr([str(t) for t in df.dtypes]).encode())
    h.update(repr(list(df.index)).encode() + str(df.index.dtype).encode())
    for c in df.columns:
        col = df[c]
        if col.dtype.kind == "f":
            h.update(np.isnan(np.asarray(col.values, dtype=float) * 0.0).tobytes())   # where values are missing (NaN or inf)
        else:
            h.update(repr([_norm_obj(x) for x in col.values]).encode())
    return h.hexdigest()[:12]


def float_diff_class(a, b):
    """difference class of the float cells of two tables of equal structure:
    same | lt1e-14 (absolute difference below 1e-14: lost decimal places) | inf2nan | other"""
    cls = "same"
    rank = {"same": 0, "lt1e-14": 1, "inf2nan": 2, "other": 3}
    if list(a.columns) != list(b.columns) or len(a) != len(b):
        return "other"
    for c in a.columns:
        if a[c].dtype.kind != "f" or b[c].dtype.kind != "f":
            continue
        x = np.asarray(a[c].values, dtype=float)
        y = np.asarray(b[c].values, dtype=float)
        for u, v in zip(x, y):
            if u == v or (np.isnan(u) and np.isnan(v)):
                k = "same"
            elif np.isinf(u) and np.isnan(v):
                k = "inf2nan"
            elif np.isfinite(u) and np.isfinite(v) and abs(u - v) < 1e-14:
                k = "lt1e-14"
            else:
                k = "other"
            if rank[k] > rank[cls]:
                cls = k
    return cls


def results_diff_class(a, b, tol=1e-7):
    """class of the largest difference between the float cells of the result tables of two nets:
    same | small (below tol: both runs are solved to the solver tolerance only) | other (also: different tables / shapes)"""
    cls = "same"
    keys = sorted(k for k in a.keys() if k.startswith("res_") and isinstance(a[k], pd.DataFrame))
    if keys != sorted(k for k in b.keys() if k.startswith("res_") and isinstance(b[k], pd.DataFrame)):
        return "other"
    for k in keys:
        x, y = a[k], b[k]
        if list(x.columns) != list(y.columns) or list(x.index) != list(y.index):
            return "other"
        for c in x.columns:
            if x[c].dtype.kind != "f":
                continue
            u = np.asarray(x[c].values, dtype=float)
            v = np.asarray(y[c].values, dtype=float)
            if not np.array_equal(np.isnan(u), np.isnan(v)):
                return "other"
            d = np.nanmax(np.abs(u - v)) if len(u) and not np.all(np.isnan(u)) else 0.0
            scale = max(1.0, float(np.nanmax(np.abs(u))) if len(u) and not np.all(np.isnan(u)) else 1.0)
            if d > tol * scale:
                return "other"
            if d > 0:
                cls = "small"
    return cls


def table_digest(df):
    h = hashlib.sha1()
    h.update(repr(list(df.columns)).encode())
    h.update(repr([str(t) for t in df.dtypes]).encode())
    h.update(repr(list(df.index)).encode() + str(df.index.dtype).encode())
    for c in df.columns:
        col = df[c]
        if col.dtype.kind == "f":
            h.update(np.ascontiguousarray(col.values).tobytes())
        else:
            h.update(repr(list(col.values)).encode())
    return h.hexdigest()[:12]


def _attr_repr(v):
    if isinstance(v, np.ndarray):
        return "nd" + repr(v.tolist())
    if isinstance(v, (pd.Series, pd.DataFrame)):
        return "pd" + repr(v.values.tolist())
    if callable(v):
        return "callable"
    import enum
    if isinstance(v, enum.Enum):
        return repr(str(v.value))
    return repr(v)


def fluid_digest(fl):
    """name, type, and for every property: class, all plain attributes, values on a probe grid"""
    if fl is None:
        return "nofluid"
    probe = np.array([280.0, 300.0, 350.0])
    parts = [str(fl.name), str(fl.fluid_type), str(fl.is_gas)]
    for pn in sorted(fl.all_properties):
        pr = fl.all_properties[pn]
        parts.append(pn + ":" + type(pr).__name__)
        for k in sorted(vars(pr)):
            if k.startswith("_") or k == "prop_getter":
                continue
            parts.append(k + "=" + _attr_repr(vars(pr)[k]))
        try:
            parts.append(repr(np.asarray(fl.get_property(pn, probe)).tolist()))
        except Exception as e:  # noqa
            parts.append(type(e).__name__)
    return hashlib.sha1("|".join(parts).encode()).hexdigest()[:12]


def description_digests(net):
    """opaque tokens for everything a calculation must not touch"""
    d = {}
    for k in sorted(net.keys()):
        v = net[k]
        if k.startswith("_") or k.startswith("res_"):
            continue
        if isinstance(v, pd.DataFrame):
            d[k] = table_digest(v)
    d["fluid"] = fluid_digest(net.get("fluid"))
    st = net.get("std_types", {})
    stp = []
    for k in sorted(st):
        for name in sorted(st[k], key=str):
            v = st[k][name]
            if isinstance(v, dict):
                stp.append((k, str(name), sorted((a, _attr_repr(b)) for a, b in v.items())))
            else:       # std-type objects (pumps): class + attributes
                stp.append((k, str(name), type(v).__name__, sorted((a, _attr_repr(b)) for a, b in vars(v).items() if not a.startswith("_"))))
    d["std_types"] = hashlib.sha1(repr(stp).encode()).hexdigest()[:12]
    u = {k: v for k, v in net.get("user_pf_options", {}).items() if k != "hyd_flag"}
    d["user_pf_options"] = hashlib.sha1(repr(sorted((k, repr(v)) for k, v in u.items())).encode()).hexdigest()[:12]
    d["meta"] = hashlib.sha1(repr((net.get("name"), str(net.get("sector")),
                                   [c.__name__ for c in net.component_list])).encode()).hexdigest()[:12]
    return d


def result_digest(net):
    h = hashlib.sha1()
    for k in sorted(net.keys()):
        if k.startswith("res_") and isinstance(net[k], pd.DataFrame):
            h.update(k.encode())
            h.update(table_digest(net[k]).encode())
    return h.hexdigest()[:12]


def count_results(net, thermal, hydraulic=True):
    """(numbers in any result cell, non-finite cells in rows/columns that must be calculated)"""
    nums = bad = 0
    for k in net.keys():
        if not (k.startswith("res_") and isinstance(net[k], pd.DataFrame)):
            continue
        df = net[k]
        for c in df.columns:
            if df[c].dtype.kind != "f":
                continue
            v = df[c].values
            nums += int(np.isfinite(v).sum()) + int(np.isinf(v).sum())
            is_th = c.startswith("t_") or c in ("deltat_k", "qext_w")
            if k == "res_junction" and c == "t_k":
                is_th = True
            if c == "compr_power_mw":
                continue
            if is_th and not thermal:
                continue
            if not is_th and not hydraulic:
                continue
            if k == "res_ext_grid":
                continue
            bad += int((~np.isfinite(v)).sum())
    return nums, bad


def sol_vec(net):
    from pandapipes.idx_node import PINIT
    from pandapipes.idx_branch import MDOTINIT
    return np.concatenate([net._pit["node"][:, PINIT].copy(), net._pit["branch"][:, MDOTINIT].copy()])


EDIT_KEY = {"break": "break", "repair": "break", "edit": "edit", "undo": "edit",
            "struct_off": "struct", "struct_on": "struct"}
APPLY_OPS = ("break", "edit", "struct_off")


def apply_edit(net, knobs, op, saved):
    """perform a description-changing op of MC_Hist on the real net (direct table edit, as users do)"""
    import pandapipes as pp
    if op["op"] == "setuser":
        if op["v"] == "clear":
            pp.set_user_pf_options(net, reset=True)
        else:
            pp.set_user_pf_options(net, iter=int(op["v"][4:]), tol_res=2e-3)
        return
    key = EDIT_KEY[op["op"]]
    tbl, col, idx, val = knobs[key]
    if col == "__index__":
        # the row is given another index label (as after dropping an element and creating it again under a new index): the same
        # physical system, another description; undone by restoring the label
        if op["op"] in APPLY_OPS:
            net[tbl] = net[tbl].rename(index={idx[0]: val})
        else:
            net[tbl] = net[tbl].rename(index={val: idx[0]})
        return
    if op["op"] in APPLY_OPS:
        saved[key] = net[tbl].loc[idx, col].copy()
        net[tbl].loc[idx, col] = val
    else:
        net[tbl].loc[idx, col] = saved[key]


def apply_knob(net, knob):
    """put a fresh net into the edited condition of a knob (used to rebuild the description a history has reached)"""
    tbl, col, idx, val = knob
    if col == "__index__":
        net[tbl] = net[tbl].rename(index={idx[0]: val})
    else:
        net[tbl].loc[idx, col] = val


def run_options(op):
    o = {"mode": op["mode"], "nonlinear_method": op["method"], "use_numba": False}
    if op["budget"] == "starved":
        o["iter"] = 1
    elif op["budget"] in ("hydstarved", "thermstarved", "bistarved"):
        # stage-specific limits: one stage is starved, the others are ample
        o.update(max_iter_hyd=60, max_iter_therm=60, max_iter_bidirect=60)
        o[{"hydstarved": "max_iter_hyd", "thermstarved": "max_iter_therm", "bistarved": "max_iter_bidirect"}[op["budget"]]] = 1
    elif op.get("uopts_iter") is None:
        o["iter"] = 60
    if op.get("tols") == "split":      # different tolerances per quantity: each must be judged by its own
        o.update(tol_p=1e-4, tol_m=1e-1, tol_T=1e-5, tol_res=1e6)
    elif op.get("tols") == "split2":
        o.update(tol_p=1e-1, tol_m=1e-4, tol_T=1e-1, tol_res=1e6)
    if op.get("matrix") in ("update", "reuse"):
        o["only_update_hydraulic_matrix"] = True
    if op.get("matrix") == "reuse":
        o["reuse_internal_data"] = True
    return o
