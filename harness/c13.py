"""C13 - each time-series step equals a stand-alone calculation with that step's inputs."""
import collections, json, os, random, time, logging, warnings, hashlib
import numpy as np
from . import core, tlc, hist as H

warnings.filterwarnings("ignore")
logging.disable(logging.CRITICAL)
INPUTS = {"A": (1.0, 1.5, True), "B": (2.2, 0.3, True), "X": (1.0, 1.0, False)}   # sink scaling, source factor, ext_grid in service
LOGGED = [("res_junction", "p_bar"), ("res_pipe", "mdot_from_kg_per_s"), ("res_sink", "mdot_kg_per_s"), ("res_ext_grid", "mdot_kg_per_s"),
          ("res_pipe", "t_to_k"), ("res_junction", "t_k")]


def _dig(arrs):
    h = hashlib.sha1()
    allnan = True
    for a in arrs:
        a = np.asarray(a, dtype=float)
        if not np.all(np.isnan(a)):
            allnan = False
        h.update(np.round(a, 10).tobytes())
    return "nan" if allnan else h.hexdigest()[:12]


def run_case(job):
    import pandas as pd
    import pandapipes as pp
    from pandapower.control import ConstControl
    from pandapower.timeseries import DFData, OutputWriter
    from pandapipes.timeseries import run_timeseries
    full = job["profile"]                                   # the rows of the data source
    rows = [int(s) for s in (job.get("steps") or range(1, len(full) + 1))]      # the rows that are run, in this order (1-based)
    prof = full
    mode = job.get("mode", "hydraulics")
    net, _ = H.NETS[job["net"]]()
    base_sink = net.sink.mdot_kg_per_s.values.copy()
    n = len(prof)
    df = pd.DataFrame({"s%d" % i: [base_sink[i] * INPUTS[p][0] for p in prof] for i in range(len(base_sink))})
    ds = DFData(df)
    ds2 = DFData(pd.DataFrame({"eg": [INPUTS[p][2] for p in prof]}))        # separate source: one dtype per data source
    ConstControl(net, "sink", "mdot_kg_per_s", element_index=list(net.sink.index), profile_name=["s%d" % i for i in range(len(base_sink))], data_source=ds)
    ConstControl(net, "ext_grid", "in_service", element_index=[net.ext_grid.index[0]], profile_name=["eg"], data_source=ds2)
    two = job["net"] == "twoarea"
    if two:
        # two supplied areas: input "B" switches the second area's external grid off (feasible, but another supplied set), "X" both
        ds3 = DFData(pd.DataFrame({"eg2": [p == "A" for p in prof]}))
        ConstControl(net, "ext_grid", "in_service", element_index=[net.ext_grid.index[1]], profile_name=["eg2"], data_source=ds3)
    steps = [r - 1 for r in rows]
    ow = OutputWriter(net, steps, output_path=None, log_variables=LOGGED)
    raised, exc = False, ""
    try:
        run_timeseries(net, time_steps=steps, continue_on_divergence=job["cod"], verbose=False, mode=mode, use_numba=False, iter=40)
    except Exception as e:  # noqa
        raised, exc = True, type(e).__name__
    out = []
    for pos, t in enumerate(steps):
        arrs = []
        for tbl, col in LOGGED:
            key = "%s.%s" % (tbl, col)
            npr = getattr(ow, "np_results", {}).get(key)          # filled step by step (also when the loop aborts later)
            dfo = ow.output.get(key)
            if raised and npr is not None and pos < len(npr):     # the series aborted: only the raw step buffer exists (one row per step run)
                arrs.append(np.asarray(npr[pos], dtype=float))
            elif dfo is not None and t in dfo.index:
                arrs.append(dfo.loc[t].values)
            else:
                arrs.append(np.array([np.nan]))
        logged = _dig(arrs)
        flagged = bool(t in getattr(ow, "output", {}).get("Parameters", pd.DataFrame()).index and False)
        # stand-alone run on a fresh net with this step's inputs
        fnet, _ = H.NETS[job["net"]]()
        fnet.sink["mdot_kg_per_s"] = base_sink * INPUTS[prof[t]][0]
        fnet.ext_grid.loc[fnet.ext_grid.index[0], "in_service"] = INPUTS[prof[t]][2]
        if two:
            fnet.ext_grid.loc[fnet.ext_grid.index[1], "in_service"] = (prof[t] == "A")
        try:
            pp.pipeflow(fnet, mode=mode, use_numba=False, iter=40)
            sa = _dig([fnet[tbl][col].values for tbl, col in LOGGED])
        except Exception:  # noqa
            sa = "nan"
        par = ow.output.get("Parameters")
        flagged = bool(par is not None and "powerflow_failed" in par.columns and t in par.index and bool(par.loc[t, "powerflow_failed"]))
        out.append({"logged": logged, "standalone": sa, "flagged": flagged})
    # the trace carries the inputs along the run (the effective profile); rows that are not run must leave no trace
    return {"id": job["id"], "profile": [full[r - 1] for r in rows], "rows": rows, "full_profile": full, "cod": job["cod"], "raised": raised, "exc": exc,
            "steps": out, "net": job["net"], "mode": mode}


def validate(cases):
    sc = core.Scratch()
    try:
        p = sc.path("trace.ndjson")
        core.write_ndjson(p, cases)
        res = tlc.run("Trace_TS", env={"TRACE_FILE": p}, check=True, timeout=3000)
        s = res.by_tag("SUMMARY")
        if not s or s[0]["cases"] != len(cases):
            raise tlc.TLCError("trace not consumed: %s" % s)
        return res, res.by_tag("FAIL")
    finally:
        sc.cleanup()


def main():
    t0 = time.time()
    tr, sd = core.tier(), core.seed()
    V = core.Verdicts("C13")
    rnd = random.Random(sd)
    mc = tlc.run("MC_TS", workers=core.nworkers(), timeout=3000, check=True)
    sh = core.spec_hash("MC_TS")

    def emit():
        cfg = "_ts_%d.cfg" % os.getpid()
        with open(os.path.join(tlc.SPEC_DIR, cfg), "w") as f:
            f.write('SPECIFICATION Spec\nCONSTANTS\n  MaxLen = 4\n  Inputs = {"A", "B", "X"}\n  EmitOn = TRUE\n  StepOrders = "any"\nINVARIANT Emit\nCHECK_DEADLOCK FALSE\n')
        try:
            r = tlc.run("MC_TS", cfg=cfg, workers=1, timeout=3000, check=False)
        finally:
            os.remove(os.path.join(tlc.SPEC_DIR, cfg))
        seen, out = set(), []
        for x in r.by_tag("TS"):
            k = json.dumps([x["profile"], x["steps"], x["cod"], x["transient"]])
            if k not in seen:
                seen.add(k)
                out.append({"profile": x["profile"], "steps": x["steps"], "cod": x["cod"], "transient": x["transient"]})
        return out
    beh = core.cached("c13beh" + sh, emit)
    jobs = []
    for i, b in enumerate([b for b in beh if not b["transient"]]):
        for net, mode in (("branched", "hydraulics"), ("branched", "sequential"), ("gas", "hydraulics"), ("twoarea", "sequential")):
            jobs.append({"id": "ts%d.%s.%s" % (i, net, mode), "net": net, "mode": mode, "profile": b["profile"], "steps": b["steps"], "cod": b["cod"]})
    if tr == "quick":
        # stratified: complete ascending runs, and subsets / reorderings of the rows
        full = [j for j in jobs if j["steps"] == list(range(1, len(j["profile"]) + 1))]
        part = [j for j in jobs if j["steps"] != list(range(1, len(j["profile"]) + 1))]
        jobs = rnd.sample(full, min(len(full), 160)) + rnd.sample(part, min(len(part), 140))
    else:
        # thorough: every complete ascending run (as before) and a large sample of the subsets / reorderings
        full = [j for j in jobs if j["steps"] == list(range(1, len(j["profile"]) + 1))]
        part = [j for j in jobs if j["steps"] != list(range(1, len(j["profile"]) + 1))]
        jobs = full + rnd.sample(part, min(len(part), 6000))
    cases = core.pmap(run_case, jobs, chunksize=4)
    # transient series (run_timeseries(transient=True)): hydraulics of every step = stand-alone, a step depends on the past only
    from . import transient as TR
    tjobs = TR.jobs_for(tr, sd, [b for b in beh if b["transient"]])
    tcases = [x[0] for x in core.pmap(TR.run_case, tjobs, chunksize=2)]
    cases = cases + tcases
    by_id = {c["id"]: c for c in cases}
    res, fails = validate(cases)
    cc = collections.Counter()
    for f in fails:
        for cl in f["clauses"]:
            cc[cl[0]] += 1
            V.report(cl[0], cl[1], by_id[f["id"]], text="case=%s" % f["id"])
    cov = {"states": mc.distinct, "transitions": mc.generated, "traces_validated_against_impl": len(cases),
           "samples": [cases[0]], "behaviours_in_model": len(beh), "time_series_runs": len(cases),
           "steps_compared": sum(len(c["steps"]) for c in cases),
           "with_infeasible_step": sum(1 for c in cases if "X" in c["profile"]),
           "transient_series": len(tcases), "transient_steps_compared": sum(len(c["steps"]) for c in tcases),
           "failing_clause_counts": dict(cc), "trace_spec_states": res.distinct,
           "evaluations": len(cases), "distinct_nontrivial": sum(1 for c in cases if "X" in c["profile"] and len(c["profile"]) >= 3),
           "rule": "all profiles of length <= 4 over {A, B, infeasible} x every subset of the rows in every order (time_steps) x continue_on_divergence x {stationary, transient} (quick: stratified sample), run as pandapipes time series on two nets / modes (transient: two heat nets with a constant-property liquid, run_timeseries(transient=True), each also over the profile without its last step) "
                   "(quick: seeded sample of 260); non-trivial = an infeasible step inside a profile of length >= 3"}
    rc = V.finish()
    core.write_evidence("C13", "model_checking", cov, time.time() - t0, len(V.violations),
                        assumptions=["logged values compared through digests rounded to 1e-10", "multi-energy time series are covered under C20",
                                     "a diverged step counts as reported if every logged value of that step is NaN"])
    print("C13 %s: loop-model states=%d, time series=%d, violations=%d, known=%d, %.0fs"
          % (tr, mc.distinct, len(cases), len(V.violations), len(V.known), time.time() - t0))
    return rc


def replay(path):
    rec = json.load(open(path))
    c = rec["case"]
    if c.get("transient"):
        from . import transient as TR
        case = TR.run_case({"id": c["id"], "net": c["net"], "profile": c.get("full_profile", c["profile"]), "steps": c.get("rows"), "cod": c["cod"]})[0]
    else:
        case = run_case({"id": c["id"], "net": c["net"], "mode": c["mode"], "profile": c.get("full_profile", c["profile"]), "steps": c.get("rows"), "cod": c["cod"]})
    res, fails = validate([case])
    for f in fails:
        print("FAIL", f)
    return 1 if fails else 0
