"""Designed-exact families (DESIGN D1/D2): build real nets from scenarios of spec/PPRefHyd.tla."""
import math
import numpy as np

DSTAR = math.sqrt(0.04 / math.pi)            # inner diameter in m giving A = 0.01 m2
R0 = 6400.0                                  # Re = R0 * |m|
ETA = DSTAR / (0.01 * R0)                    # dynamic viscosity so that Re = |m| d / (eta A) = R0 |m|
K_NIKURADSE = 3.71 * DSTAR * 10 ** (-2.0)    # 1/(-2 log10(k/(3.71 d)))^2 = 1/16
HEIGHTS_M = {"1": 0, "2": 10, "3": -20}


def k_designed(fm, m):
    """roughness [m] of a pipe designed so that the documented friction law gives lambda_turb = 1/16 for the designed flow m:
    nikuradse  1/(2 log10(k/(3.71 d)))^2 (independent of the flow);  colebrook  10^-2 = 2.51*4/Re + k/(3.71 d);
    swamee-jain  10^-2 = k/(3.7 d) + 5.74/Re^0.9   (Re = R0 |m|)"""
    if fm == "colebrook":
        return 3.71 * DSTAR * (0.01 - 2.51 * 4.0 / (R0 * abs(m)))
    if fm == "swamee-jain":
        return 3.7 * DSTAR * (0.01 - 5.74 / (R0 * abs(m)) ** 0.9)
    return K_NIKURADSE


def pamb_ubar(h):
    """documented barometric formula (oracle table, DESIGN D2), micro-bar"""
    return int(round(1.01325 * (1 - h * 0.0065 / 288.15) ** 5.255 * 1e6))


def oracle_tables():
    return {"hm": {k: v for k, v in HEIGHTS_M.items()}, "pamb": {k: pamb_ubar(v) for k, v in HEIGHTS_M.items()}}


def fluid():
    import pandapipes as pp
    from pandapipes.properties.fluids import create_constant_fluid
    return create_constant_fluid("designed_liquid", "liquid", density=1000.0, viscosity=ETA,
                                 heat_capacity=4000.0, molar_mass=18.0, compressibility=1.0, der_compressibility=0.0)


def build(s, labels=None, var=None):
    """scenario -> real net.
    labels: dict node -> junction label.  var: variant switches that must not change the physics:
      blabels  'desc' | 'gap' | 'big' : labels of branch / load rows (unsorted, gapped, huge)
      split    True: a pipe with n sections is built as n one-section pipes in series
      loads    'split' (a demand as two sinks) | 'negsink' (a source as a negative sink)
      extras   True: out-of-service pipe, closed valve, out-of-service sink / ext_grid / junction added
    returns (net, meta); meta maps scenario items to (table, label[, last-segment label])."""
    import pandapipes as pp
    var = var or {}
    net = pp.create_empty_network("designed", fluid=fluid())
    nodes = s["nodes"]
    lab = labels or {k + 1: k for k in range(len(nodes))}
    meta = {"node": {}, "branch": {}, "chord": {}, "sink": {}, "eg": [], "branch_to": {}}
    for k, n in enumerate(nodes, start=1):
        pp.create_junction(net, pn_bar=s.get("pn", 5.0), tfluid_k=s.get("tn", 300.0), height_m=HEIGHTS_M[str(n["h"])], index=lab[k])
        meta["node"][k] = lab[k]
    for p in s["p0s"]:
        meta["eg"].append(pp.create_ext_grid(net, lab[1], p_bar=p / 1e6, t_k=float(s.get("t0", 300.0)), type="pt"))
    counters = {}
    if var.get("idle_pump_first") and len(nodes) >= 2:
        from pandapipes.std_types.std_type_class import PumpStdType
        from pandapipes.std_types.std_types import create_pump_std_type
        create_pump_std_type(net, "idle_type", PumpStdType("idle_type", np.array([0.0, 9.0])))
        pp.create_pump(net, lab[1], lab[2], "idle_type", in_service=False, index=77)

    def nextlab(tbl):
        c = counters.get(tbl, 0)
        counters[tbl] = c + 1
        mode = var.get("blabels")
        if mode == "desc":
            return 60 - 7 * c
        if mode == "gap":
            return [48, 3, 17, 51, 49, 50, 5, 90, 77, 64, 31, 12][c % 12] + 100 * (c // 12)
        if mode == "big":
            return [100001, 99999, 100000, 2000003, 7, 2000001, 150000, 120000, 130000, 140000][c % 10] + 3000000 * (c // 10)
        return None
    aux = {"n": 0}

    FAC = {1: 1.0, 2: 0.5, 3: 0.75}
    AMB = {1: 283.0, 2: 303.0}

    def thermal_kw(N, th):
        """heat-transfer coefficient giving the designed decay factor: exp(-alpha pi D_outer L / (cp |m|)) = f (documented law).
        variant thickwall: every second pipe created gets an outer diameter of 1.5 D (heat is lost over the outer surface, alpha is
        scaled down accordingly), the others none at all (then the inner diameter counts) - the same physical system"""
        if not th:
            return {}
        f = FAC[th["fd"]]
        alpha = 0.0 if f == 1.0 else -math.log(f) * 4000.0 * abs(th["m"]) / (math.pi * DSTAR * N * DSTAR)
        kw = {"u_w_per_m2k": alpha, "text_k": AMB[th["te"]]}
        if var.get("thickwall"):
            aux["pipes"] = aux.get("pipes", 0) + 1
            if aux["pipes"] % 2 == 1:
                kw.update(outer_diameter_mm=1.5 * DSTAR * 1000.0, u_w_per_m2k=alpha / 1.5)
        return kw

    fm = s.get("fm", "nikuradse")

    def mk(kind, a, b, N, zeta, sec, ha=None, hb=None, th=None, mdes=None):
        """returns (table, label of the element at the a-end, label at the b-end)"""
        kr = K_NIKURADSE if (fm == "nikuradse" or not mdes) else k_designed(fm, mdes)
        if kind == "pipe":
            if var.get("split") and sec > 1:
                # n sections == n pipes of 1/n length in series (intermediate junctions at interpolated height)
                first = last = None
                prev = a
                for i in range(sec):
                    if i < sec - 1:
                        aux["n"] += 1
                        h = ha + (hb - ha) * (i + 1) / sec
                        nxt = pp.create_junction(net, pn_bar=s.get("pn", 5.0), tfluid_k=300.0, height_m=h,
                                                 index=max(net.junction.index) + 1)
                    else:
                        nxt = b
                    pl = pp.create_pipe_from_parameters(net, prev, nxt, length_km=N * DSTAR / 1000.0 / sec,
                                                        inner_diameter_mm=DSTAR * 1000.0, k_mm=kr * 1000.0,
                                                        loss_coefficient=zeta / sec, sections=1, index=nextlab("pipe"),
                                                        **thermal_kw(N, th))
                    first = pl if first is None else first
                    last = pl
                    prev = nxt
                return "pipe", first, last
            l = pp.create_pipe_from_parameters(net, a, b, length_km=N * DSTAR / 1000.0,
                                               inner_diameter_mm=DSTAR * 1000.0, k_mm=kr * 1000.0,
                                               loss_coefficient=zeta, sections=sec, index=nextlab("pipe"),
                                               **thermal_kw(N, th))
            return "pipe", l, l
        if kind == "valve":
            l = pp.create_valve(net, a, b, "ju", inner_diameter_mm=DSTAR * 1000.0, loss_coefficient=zeta, index=nextlab("valve"))
            return "valve", l, l
        if kind == "heat_exchanger":
            l = pp.create_heat_exchanger(net, a, b, qext_w=(4000.0 * th["m"] * th["dT"]) if th else 0.0, inner_diameter_mm=DSTAR * 1000.0,
                                         loss_coefficient=zeta, index=nextlab("heat_exchanger"))
            return "heat_exchanger", l, l
        if kind == "pump":
            from pandapipes.std_types.std_type_class import PumpStdType
            from pandapipes.std_types.std_types import create_pump_std_type
            name = "designed_%d_%d" % (N, int(zeta))
            if name not in net.std_types["pump"]:
                # lift [bar] = N - zeta/10 * mdot[kg/s] = N - zeta/36 * Q[m3/h]   (rho = 1000)
                create_pump_std_type(net, name, PumpStdType(name, np.array([-zeta / 36.0, float(N)])))
            l = pp.create_pump(net, a, b, name, index=nextlab("pump"))
            return "pump", l, l
        raise ValueError(kind)

    def hm(k):
        return HEIGHTS_M[str(nodes[k - 1]["h"])]

    for k, n in enumerate(nodes, start=1):
        if k == 1:
            continue
        x, y = (k, n["par"]) if n["rev"] else (n["par"], k)
        th = {"fd": n.get("fd", 1), "te": n.get("te", 1), "dT": n.get("dT", 0), "m": s["flows"][k - 1]} if "flows" in s else None
        mdes = (s.get("mflows") or s.get("flows") or {}) and (s.get("mflows") or s.get("flows"))[k - 1]
        meta["branch"][k] = mk(n["kind"], lab[x], lab[y], n["N"], float(n["zeta"]), n["sec"], hm(x), hm(y), th, mdes)
    for i, c in enumerate(s["chords"], start=1):
        z = c["zeta"][0] / c["zeta"][1]
        x, y = (c["b"], c["a"]) if c["rev"] else (c["a"], c["b"])
        th = {"fd": c.get("fd", 1), "te": c.get("te", 1), "dT": 0, "m": c["mc"]} if "flows" in s else None
        meta["chord"][i] = mk(c["kind"], lab[x], lab[y], c["N"], z, c["sec"], hm(x), hm(y), th, c["mc"])
    for k, n in enumerate(nodes, start=1):
        d = n["d"]
        if d == 0:
            continue
        mode = var.get("loads")
        rows = []
        if d > 0:
            if mode == "split":
                rows.append(("sink", pp.create_sink(net, lab[k], mdot_kg_per_s=0.5 * d, scaling=0.5, index=nextlab("sink")), 0.25 * d))
                rows.append(("sink", pp.create_sink(net, lab[k], mdot_kg_per_s=0.25 * d, scaling=3.0, index=nextlab("sink")), 0.75 * d))
            else:
                rows.append(("sink", pp.create_sink(net, lab[k], mdot_kg_per_s=float(d), index=nextlab("sink")), float(d)))
        else:
            if mode == "negsink":
                rows.append(("sink", pp.create_sink(net, lab[k], mdot_kg_per_s=float(d), index=nextlab("sink")), float(d)))
            else:
                rows.append(("source", pp.create_source(net, lab[k], mdot_kg_per_s=float(-d), index=nextlab("source")), float(-d)))
        meta["sink"][k] = rows
    if var.get("extras"):
        # elements that are switched off are as good as absent
        last = lab[len(nodes)]
        pp.create_pipe_from_parameters(net, lab[1], last, 0.05, 50.0, in_service=False, index=nextlab("pipe"))
        pp.create_valve(net, lab[1], last, "ju", 50.0, opened=False, index=nextlab("valve"))
        pp.create_sink(net, last, 7.0, in_service=False, index=nextlab("sink"))
        pp.create_ext_grid(net, last, p_bar=3.0, t_k=300.0, in_service=False)
        jx = pp.create_junction(net, 5.0, 300.0, in_service=False, index=max(net.junction.index) + 1)
        pp.create_pipe_from_parameters(net, last, jx, 0.05, 50.0, in_service=False, index=nextlab("pipe"))
        pp.create_sink(net, jx, 1.0, index=nextlab("sink"))
    return net, meta
