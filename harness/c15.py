"""C15 - saving and loading a network loses nothing.
MC_Hist behaviours with save/load steps (four storage paths) interleaved with runs and edits are replayed on a zoo of
real nets; across every save/load step all digests (description AND results) must be unchanged, and later runs must give
the same results as on the never-saved object (Trace_Hist: C15.* and C12.* clauses)."""
import collections, io, json, os, random, tempfile, time, logging, warnings
import numpy as np
from . import core, tlc, hist as H, c12
from .c05 import gen_hist

warnings.filterwarnings("ignore")
logging.disable(logging.CRITICAL)

HIST_S = {"Modes": '= {"hydraulics", "sequential"}', "Budgets": '= {"ample", "starved"}', "Methods": '= {"constant"}',
          "TolSets": '= {"default"}', "Matrix": '= {"plain"}',
          "EditOps": '= {"edit", "json_string", "json_file", "pickle", "json_encrypted"}'}


def zoo():
    """name -> builder returning (net, knobs); every component kind, odd labels, NaN/None cells, custom columns,
    custom fluid, pump type from parameters, empty net, restricted sectors"""
    import pandapipes as pp
    from . import edit
    from pandapipes.pandapipes_net import Sector
    z = dict(H.NETS)

    def from_edit(k):
        def f():
            net = edit.base_net(k)
            return net, {"break": ("junction", "in_service", list(net.junction.index), False),
                         "edit": ("pipe", "length_km", [net.pipe.index[0]], 0.77)}
        return f
    for k in (1, 2, 3):
        z["edit%d" % k] = from_edit(k)

    def custom():
        from pandapipes.properties.fluids import Fluid, FluidPropertyConstant, FluidPropertyLinear, FluidPropertyInterExtra
        fl = Fluid("myfluid", "liquid",
                   density=FluidPropertyInterExtra([270.0, 300.0, 380.0], [1000.0, 996.0, 950.0]),
                   viscosity=FluidPropertyConstant(0.0009, warn_dependent_variables=True),
                   heat_capacity=FluidPropertyLinear(-0.5, 4300.0),
                   molar_mass=FluidPropertyConstant(18.0), compressibility=FluidPropertyConstant(1.0),
                   der_compressibility=FluidPropertyConstant(0.0))
        net = pp.create_empty_network("custom net", fluid=fl, sector=Sector.WATER)
        j = pp.create_junctions(net, 4, 5, 310, index=[7, 3, 100000, 12], name=["a", None, "c", "d"], zone=["x", None, "y", None])
        pp.create_ext_grid(net, 7, 6, 320, type="pt")
        pp.create_pipe_from_parameters(net, 7, 3, 0.2, 90, k_mm=0.1, text_k=np.nan, index=42, custom_note="hello")
        pp.create_pipe(net, 3, 100000, "80_GGG", 0.3, index=5)
        pp.create_pump_from_parameters(net, 100000, 12, "mypump", [6.1, 5.8, 4.0], [0, 19, 83], 2, index=9)
        pp.create_valve(net, 3, 42, "pi", 90, opened=True, index=2)
        pp.create_sink(net, 12, 0.6, scaling=1.5)
        pp.create_mass_storage(net, 3, 0.05)
        pp.set_user_pf_options(net, tol_p=1e-6, friction_model="colebrook")
        return net, {"break": ("ext_grid", "in_service", [0], False), "edit": ("sink", "mdot_kg_per_s", [0], 0.9)}
    z["custom"] = custom

    def overridden():
        """a library fluid (name 'water') one property of which the user has replaced: the stored net carries the user's property"""
        from pandapipes.properties.fluids import FluidPropertyConstant
        net = pp.create_empty_network("overridden water", fluid="water")
        net.fluid.add_property("density", FluidPropertyConstant(930.0), overwrite=True)
        net.fluid.add_property("viscosity", FluidPropertyConstant(2e-3), overwrite=True)
        j = pp.create_junctions(net, 3, 5, 320)
        pp.create_ext_grid(net, j[0], 5, 340, type="pt")
        pp.create_pipe_from_parameters(net, j[0], j[1], 0.4, 80, k_mm=0.1, u_w_per_m2k=5)
        pp.create_pipe_from_parameters(net, j[1], j[2], 0.3, 80, k_mm=0.1, u_w_per_m2k=5)
        pp.create_sink(net, j[2], 1.2)
        return net, {"break": ("ext_grid", "in_service", [0], False), "edit": ("sink", "mdot_kg_per_s", [0], 0.7)}
    z["overridden"] = overridden

    def empty():
        net = pp.create_empty_network("empty", fluid="hgas", sector=Sector.GAS)
        return net, {"break": ("junction", "in_service", [], False), "edit": ("junction", "in_service", [], False)}
    z["empty"] = empty

    def controlled():
        import pandas as pd
        from pandapower.control import ConstControl
        from pandapower.timeseries import DFData
        net, kn = H.net_branched()
        ds = DFData(pd.DataFrame({"s": [1.0, 1.2, 0.8]}))
        ConstControl(net, "sink", "mdot_kg_per_s", element_index=[0], profile_name=["s"], data_source=ds)
        return net, kn
    z["controlled"] = controlled
    return z


def saveload(net, path, scratch):
    import pandapipes as pp
    if path == "json_string":
        return pp.from_json_string(pp.to_json(net))
    if path == "json_file":
        fn = os.path.join(scratch, "n.json")
        pp.to_json(net, fn)
        return pp.from_json(fn)
    if path == "json_encrypted":
        return pp.from_json_string(pp.to_json(net, encryption_key="k3y"), encryption_key="k3y")
    if path == "pickle":
        fn = os.path.join(scratch, "n.p")
        pp.to_pickle(net, fn)
        return pp.from_pickle(fn)
    raise ValueError(path)


def all_digests(net):
    """digest of everything that is not a float cell (structure, labels, dtypes, flags, objects, fluid, std types ...)"""
    import pandas as pd
    d = H.description_digests(net)
    for k in sorted(net.keys()):
        if isinstance(net[k], pd.DataFrame) and not k.startswith("_") and (k in d or k.startswith("res_")):
            d[k] = H.structure_digest(net[k])
    d["converged"] = str(bool(net.get("converged", False)))
    if "controller" in net and len(net.controller):
        d["controller_objs"] = H.hashlib.sha1(repr([(type(o).__name__, sorted((a, H._attr_repr(b)) for a, b in vars(o).items()
                                                                          if a not in ("net",) and not a.startswith("_") and a != "data_source"))
                                                    for o in net.controller.object.values]).encode()).hexdigest()[:12]
    d.pop("controller", None)
    return d


def float_classes(a, b):
    """per table: difference class of the float cells between two net objects"""
    import pandas as pd
    out = {}
    for k in sorted(a.keys()):
        if isinstance(a[k], pd.DataFrame) and not k.startswith("_") and k != "controller":
            if k in b and isinstance(b[k], pd.DataFrame):
                out[k] = H.float_diff_class(a[k], b[k])
            else:
                out[k] = "other"
    return out


def replay_history(job):
    net, knobs = zoo()[job["net"]]()
    scratch = tempfile.mkdtemp(prefix="c15_")
    saved, events = {}, []
    try:
        for op in job["hist"]:
            if op["op"] in H.EDIT_KEY:
                tbl, col, idx, val = knobs[H.EDIT_KEY[op["op"]]]
                if len(idx):
                    H.apply_edit(net, knobs, op, saved)
                events.append({"op": op["op"]})
            elif op["op"] == "saveload":
                before = all_digests(net)
                raised = ""
                try:
                    net2 = saveload(net, op["path"], scratch)
                    after = all_digests(net2)
                    fcls = float_classes(net, net2)
                    net = net2
                except Exception as e:  # noqa
                    raised = "%s:%s" % (type(e).__name__, str(e)[:60])
                    after = before
                    fcls = {}
                events.append({"op": "saveload", "path": op["path"], "before": before, "after": after, "raised": raised,
                               "fclass": [[k, v] for k, v in sorted(fcls.items()) if v != "same"]})
            elif op["op"] == "run":
                if len(net.junction) == 0:
                    events.append({"op": "skip"})
                    continue
                o = dict(op)
                if job["net"] in ("gas", "versatility", "edit2", "empty") and op["mode"] != "hydraulics":
                    o["mode"] = "hydraulics"
                before = H.description_digests(net)
                oc = c12._run(net, o, None)
                after = H.description_digests(net)
                # the never-saved twin: same history without the save/load steps
                events.append({"op": "run", "mode": o["mode"], "oclass": oc, "before": before, "after": after,
                               "resdig": H.result_digest(net) if oc == "returned" else "none",
                               "fresh_oclass": "", "fresh_resdig": "", "key": "", "tvec": [], "seq_tvec": [], "ttol": 0})
    finally:
        import shutil
        shutil.rmtree(scratch, ignore_errors=True)
    return {"id": job["id"], "net": job["net"], "hist": job["hist"], "events": events}


def with_twin(job):
    """run the history and its twin without save/load steps; fill the fresh_* fields of the runs from the twin"""
    a = replay_history(job)
    tw = replay_history({"id": job["id"], "net": job["net"], "hist": [o for o in job["hist"] if o["op"] != "saveload"]})
    ra = [e for e in a["events"] if e["op"] == "run"]
    rb = [e for e in tw["events"] if e["op"] == "run"]
    for x, y in zip(ra, rb):
        x["fresh_oclass"], x["fresh_resdig"] = y["oclass"], y["resdig"]
        x["key"] = "k%d" % id(x)
    return a


def main():
    t0 = time.time()
    tr, sd = core.tier(), core.seed()
    V = core.Verdicts("C15")
    rnd = random.Random(sd)
    mh = tlc.run("MC_Hist", workers=core.nworkers(), timeout=3000, check=True)
    sh = core.spec_hash("MC_Hist")
    h2 = core.cached("c15h2" + sh, lambda: gen_hist(dict(HIST_S, MaxOps="= 2"))[1])
    h2 = [h for h in h2 if any(o["op"] == "saveload" for o in h)]
    h4 = core.cached("c15h4_%d_%s" % (sd, tr) + sh, lambda: gen_hist(
        dict(HIST_S, MaxOps="= 4"), simulate="num=%d" % (80 if tr == "quick" else 1500), depth=5, seed=sd + 41)[1])
    h4 = [h for h in h4 if any(o["op"] == "saveload" for o in h)]
    # the empty history: save/load of the net as built
    h0 = [[{"op": "saveload", "path": p}] for p in ("json_string", "json_file", "pickle", "json_encrypted")]
    names = sorted(zoo())
    jobs = []
    for i, h in enumerate(h0 + h2 + h4):
        pick = names if i < len(h0) else rnd.sample(names, 3 if tr == "quick" else len(names))
        for n in pick:
            jobs.append({"id": "%s.%d" % (n, i), "net": n, "hist": h})
    if tr == "quick" and len(jobs) > 700:
        jobs = jobs[:len(h0) * len(names)] + rnd.sample(jobs[len(h0) * len(names):], 700 - len(h0) * len(names))
    cases = core.pmap(with_twin, jobs, chunksize=4)
    by_id = {c["id"]: c for c in cases}
    res, fails = c12.validate(cases)
    cc = collections.Counter()
    for f in fails:
        for cl in f["clauses"]:
            name = cl[0] if cl[0].startswith("C15") else cl[0].replace("C12.", "C15.run_")
            cc[name] += 1
            sig = ":".join(cl[1:]) if cl[0].startswith("C15") else cl[1]
            V.report(name, sig, by_id[f["id"]], text="event=%s case=%s" % (f["ev"], f["id"]))
    nsl = sum(1 for c in cases for e in c["events"] if e["op"] == "saveload")
    cov = {"states": mh.distinct, "transitions": mh.generated, "traces_validated_against_impl": len(cases),
           "samples": [{"net": cases[-1]["net"], "hist": cases[-1]["hist"]}], "nets_in_zoo": names,
           "saveload_steps": nsl, "by_path": dict(collections.Counter(e["path"] for c in cases for e in c["events"] if e["op"] == "saveload")),
           "failing_clause_counts": dict(cc), "trace_spec_states": res.distinct,
           "evaluations": nsl, "distinct_nontrivial": sum(1 for c in cases if len(c["hist"]) >= 2),
           "rule": "MC_Hist behaviours containing save/load steps (all 2-op histories, simulated 4-op ones, plus the bare save/load of every zoo net "
                   "on all four paths); non-trivial = save/load combined with a run or an edit"}
    rc = V.finish()
    core.write_evidence("C15", "model_checking", cov, time.time() - t0, len(V.violations),
                        assumptions=["fidelity is digest equality (harness/hist.py: values, dtypes, index, column order of every table incl. results; fluid "
                                     "class/attributes/probe values; std types incl. pump objects; user options; name, sector, component list; controller objects)",
                                     "multi-energy nets are covered by C20's check, not here"])
    print("C15 %s: history model states=%d, histories=%d, save/load steps=%d, violations=%d, known=%d, %.0fs"
          % (tr, mh.distinct, len(cases), nsl, len(V.violations), len(V.known), time.time() - t0))
    return rc


def replay(path):
    rec = json.load(open(path))
    c = rec["case"]
    case = with_twin({"id": c["id"], "net": c["net"], "hist": c["hist"]})
    res, fails = c12.validate([case])
    for f in fails:
        print("FAIL", f)
    return 1 if fails else 0
