"""C19 - fluid and standard-type libraries return what their data and documentation say."""
import collections, json, os, time, logging, warnings, math
from decimal import Decimal
from fractions import Fraction
import numpy as np
from . import core, tlc

warnings.filterwarnings("ignore")
logging.disable(logging.CRITICAL)


def frac(q):
    return Fraction(q[0], q[1])


def rat(x):
    """a float result as an exact small rational [num, den] (results of the designed cases are dyadic rationals)"""
    x = float(x)
    if math.isnan(x) or math.isinf(x):
        return [1, 0]
    f = Fraction(x)
    if f.denominator > 2 ** 20 or abs(f.numerator) > 2 ** 30:
        f = Fraction(x).limit_denominator(2 ** 20)
        if abs(f.numerator) > 2 ** 30:
            return [2 ** 30, 1]
    return [f.numerator, f.denominator]


def make_prop(p):
    from pandapipes.properties.fluids import FluidPropertyConstant, FluidPropertyLinear, FluidPropertyInterExtra
    if p["cls"] == "const":
        return FluidPropertyConstant(float(frac(p["c"])))
    if p["cls"] == "linear":
        return FluidPropertyLinear(float(frac(p["slope"])), float(frac(p["offset"])))
    rows = list(zip([float(x) for x in p["xs"]], [float(y) for y in p["ys"]]))
    if p.get("given") == "descending":
        rows = rows[::-1]
    elif p.get("given") == "shuffled":
        rows = rows[1:] + rows[:1]
    return FluidPropertyInterExtra([r[0] for r in rows], [r[1] for r in rows])


def shaped(vals, shape):
    import pandas as pd
    if shape == "scalar":
        return vals[0]
    if shape == "list":
        return list(vals)
    if shape == "ndarray":
        return np.array(vals, dtype=float)
    return pd.Series(vals, index=[5 + i for i in range(len(vals))], dtype=float)


def oshape(res):
    a = np.asarray(res)
    if a.ndim == 0 or (a.ndim == 1 and a.shape[0] == 1 and not isinstance(res, (list, np.ndarray)) ):
        return "scalar", 1
    if a.ndim == 0:
        return "scalar", 1
    return ("array%d" % a.ndim), int(a.shape[0])


def run_case(job):
    k = job["c"]
    case = {"id": job["id"], "tag": "case", "c": k, "raised": "", "obs": [], "oshape": "", "olen": 0}
    try:
        if k["kind"] == "value":
            p = make_prop(k["p"])
            xs = [float(frac(x)) for x in k["xs"]]
            arg = shaped(xs if k["shape"] != "scalar" else xs[:1], k["shape"])
            res = p.get_at_value(arg)
            sh, n = oshape(res)
            if k["shape"] == "scalar":
                a = np.asarray(res, dtype=float)
                sh = "scalar" if a.size == 1 and a.ndim == 0 else ("array%d" % a.ndim)
                case["obs"] = [rat(a.reshape(-1)[0])] + [rat(np.asarray(p.get_at_value(x), dtype=float).reshape(-1)[0]) for x in xs[1:]]
            else:
                a = np.asarray(res, dtype=float).reshape(-1)
                case["obs"] = [rat(v) for v in a] if len(a) == len(xs) else [rat(a[0])] * len(xs)
            case["oshape"], case["olen"] = sh, n
        elif k["kind"] == "integral":
            p = make_prop(k["p"])
            lo, hi = float(frac(k["lo"])), float(frac(k["hi"]))
            if k["shape"] == "scalar":
                res = p.get_at_integral_value(hi, lo)
            else:
                res = p.get_at_integral_value(shaped([hi, hi], k["shape"]), shaped([lo, lo], k["shape"]))
            case["obs"] = [rat(np.asarray(res, dtype=float).reshape(-1)[0])]
        elif k["kind"] == "pump":
            from pandapipes.std_types.std_type_class import PumpStdType
            cs = [float(frac(c)) for c in k["cs"]]
            st = PumpStdType("designed", np.array(cs[::-1]))          # reg_par: highest order first
            qs = [float(frac(q)) for q in k["qs"]]                    # m3/h
            vs = [q / 3600.0 for q in qs]
            if k["shape"] == "scalar":
                case["obs"] = [rat_round(st.get_pressure(v)) for v in vs]
            else:
                res = st.get_pressure(np.array(vs))
                case["obs"] = [rat_round(v) for v in np.asarray(res, dtype=float).reshape(-1)]
        else:
            import pandapipes.properties.properties_toolbox as pt
            x = [float(frac(q)) for q in k["x"]]
            n = len(x)
            masses = [[16, 1], [4, 1], [25, 1]][:n]
            rhos = [[2, 1], [1, 2], [4, 1]][:n]
            cps = [[1000, 1], [3000, 1], [500, 1]][:n]
            M = np.array([float(frac(m)) for m in masses])
            w = pt.calculate_mass_fraction_from_molar_fraction(np.array(x), M)
            case.update({"masses": masses, "rhos": rhos, "cps": cps,
                         "mass_fractions": [rat_round(v) for v in w],
                         "molar_mass_from_molar": rat_round(pt.calculate_mixture_molar_mass(M, components_molar_proportions=np.array(x))),
                         "molar_mass_from_mass": rat_round(pt.calculate_mixture_molar_mass(M, components_mass_proportions=w)),
                         "density": rat_round(pt.calculate_mixture_density(np.array([float(frac(r)) for r in rhos]), w)),
                         "heat_capacity": rat_round(pt.calculate_mixture_heat_capacity(np.array([float(frac(c)) for c in cps]), w))})
    except Exception as e:  # noqa
        case["raised"] = type(e).__name__
    return case


def rat_round(x):
    """results that are not dyadic (1/3600 factors, divisions): nearest rational with a small denominator"""
    x = float(x)
    if math.isnan(x) or math.isinf(x):
        return [1, 0]
    f = Fraction(x).limit_denominator(100000)
    if abs(float(f) - x) > 1e-9 * max(1.0, abs(x)):
        f = Fraction(x).limit_denominator(2 ** 20)
    return [f.numerator, f.denominator]


# ------------------------------------------------------------------ library files (oracle tables from the data files)
def file_cases():
    import pandapipes as pp
    from pandapipes.properties.fluids import call_lib, _LIQUIDS, _GASES
    pdir = os.path.join(os.path.dirname(pp.__file__), "properties")
    out = []
    for fl in sorted(list(_LIQUIDS) + list(_GASES)):
        try:
            fluid = call_lib(fl)
        except Exception as e:  # noqa
            out.append({"id": "file.%s" % fl, "tag": "file", "fluid": fl, "prop": "load",
                        "rows": [{"what": "load_failed", "dev": 0, "bad": True}]})
            continue
        for prop in ("density", "viscosity", "heat_capacity"):
            path = os.path.join(pdir, fl, prop + ".txt")
            rows = []
            tab = []
            for line in open(path):
                line = line.split("#")[0].strip()
                if line:
                    a = line.split()
                    tab.append((Decimal(a[0]), Decimal(a[1])))

            def dev(obs, exp):
                exp = float(exp)
                return int(max(-10 ** 9, min(10 ** 9, round((float(obs) - exp) / max(abs(exp), 1e-300) * 1e12))))
            g = fluid.all_properties[prop]
            for x, y in tab:                                               # tabulated points reproduced
                rows.append({"what": "tabulated_value", "dev": dev(g.get_at_value(float(x)), y), "bad": False})
            for (x0, y0), (x1, y1) in zip(tab, tab[1:]):                   # linear in between
                xm = (x0 + x1) / 2
                rows.append({"what": "interpolation", "dev": dev(g.get_at_value(float(xm)), (y0 + y1) / 2), "bad": False})
            (x0, y0), (x1, y1) = tab[0], tab[1]                             # linear beyond (both ends)
            xb = x0 - (x1 - x0)
            rows.append({"what": "extrapolation", "dev": dev(g.get_at_value(float(xb)), y0 - (y1 - y0)), "bad": False})
            (x0, y0), (x1, y1) = tab[-2], tab[-1]
            xa = x1 + (x1 - x0) / 2
            rows.append({"what": "extrapolation", "dev": dev(g.get_at_value(float(xa)), y1 + (y1 - y0) / 2), "bad": False})
            arr = np.asarray(g.get_at_value(np.array([float(t[0]) for t in tab])))
            rows.append({"what": "array_shape", "dev": 0, "bad": arr.shape != (len(tab),)})
            out.append({"id": "file.%s.%s" % (fl, prop), "tag": "file", "fluid": fl, "prop": prop, "rows": rows})
        # compressibility slope equals the stored derivative
        try:
            nums = [Decimal(t) for t in open(os.path.join(pdir, fl, "compressibility.txt")).read().split("\n")[-1].split()] \
                if False else None
            comp = fluid.all_properties["compressibility"]
            dc = fluid.get_der_compressibility() if hasattr(fluid, "get_der_compressibility") else None
            z1, z2 = float(np.asarray(comp.get_at_value(10.0)).reshape(-1)[0]), float(np.asarray(comp.get_at_value(30.0)).reshape(-1)[0])
            slope = (z2 - z1) / 20.0
            dcv = float(np.asarray(dc).reshape(-1)[0])
            d = 0 if slope == dcv else int(max(-10 ** 9, min(10 ** 9, round((slope - dcv) / max(abs(dcv), 1e-12) * 1e12))))
            out.append({"id": "file.%s.compressibility" % fl, "tag": "file", "fluid": fl, "prop": "compressibility",
                        "rows": [{"what": "compressibility_slope", "dev": d if abs(dcv) > 0 else int(round(slope * 1e12)), "bad": False}]})
        except Exception as e:  # noqa
            out.append({"id": "file.%s.compressibility" % fl, "tag": "file", "fluid": fl, "prop": "compressibility",
                        "rows": [{"what": "compressibility_slope", "dev": 0, "bad": True}]})
    return out


def std_cases():
    """every library pipe type through create_pipe: parameters reach the pipe table unchanged"""
    import pandapipes as pp
    net = pp.create_empty_network(fluid="water")
    j1, j2 = pp.create_junctions(net, 2, 5, 300)
    out = []
    for name, par in sorted(net.std_types["pipe"].items()):
        try:
            idx = pp.create_pipe(net, j1, j2, name, 0.1)
            row = net.pipe.loc[idx]
            rows = []
            for col in ("inner_diameter_mm", "outer_diameter_mm", "k_mm", "u_w_per_m2k"):
                if col in par and col in row.index and not (isinstance(par[col], float) and math.isnan(par[col])):
                    a, b = par[col], row[col]       # (a parameter the type does not give is derived or left open)
                    same = (a == b) or (isinstance(a, float) and isinstance(b, float) and math.isnan(a) and math.isnan(b))
                    rows.append({"col": col, "std": repr(float(a)) if same else repr(a), "table": repr(float(a)) if same else repr(b)})
            rows.append({"col": "std_type", "std": name, "table": str(row["std_type"])})
            # an explicit per-pipe override reaches that pipe only; the library entry and later pipes keep the type's values
            before = repr(sorted((k, repr(v)) for k, v in net.std_types["pipe"][name].items()))
            i2 = pp.create_pipe(net, j1, j2, name, 0.1, k_mm=0.77)
            i3 = pp.create_pipe(net, j1, j2, name, 0.1)
            rows.append({"col": "override_applied", "std": "0.77", "table": repr(float(net.pipe.loc[i2, "k_mm"]))})
            rows.append({"col": "k_mm_after_override", "std": repr(float(par["k_mm"])), "table": repr(float(net.pipe.loc[i3, "k_mm"]))})
            rows.append({"col": "library_entry_after_override", "std": before,
                         "table": repr(sorted((k, repr(v)) for k, v in net.std_types["pipe"][name].items()))})
        except Exception as e:  # noqa
            rows = [{"col": "create_raised", "std": name, "table": type(e).__name__}]
        out.append({"id": "std.%s" % name, "tag": "std", "rows": rows})
    return out


def validate(cases):
    sc = core.Scratch()
    try:
        p = sc.path("trace.ndjson")
        core.write_ndjson(p, cases)
        res = tlc.run("Trace_Lib", env={"TRACE_FILE": p}, check=True, timeout=3000)
        s = res.by_tag("SUMMARY")
        if not s or s[0]["cases"] != len(cases):
            raise tlc.TLCError("trace not consumed: %s" % s)
        return res, res.by_tag("FAIL")
    finally:
        sc.cleanup()


def main():
    t0 = time.time()
    tr, sd = core.tier(), core.seed()
    V = core.Verdicts("C19")
    mc = tlc.run("GenLib", workers=core.nworkers(), timeout=3000, check=True)
    sh = core.spec_hash("Rat", "PPLib", "GenLib")

    def emit():
        cfg = "_lib_%d.cfg" % os.getpid()
        with open(os.path.join(tlc.SPEC_DIR, cfg), "w") as f:
            f.write("SPECIFICATION Spec\nINVARIANT Emit\nCHECK_DEADLOCK FALSE\n")
        try:
            r = tlc.run("GenLib", cfg=cfg, workers=1, timeout=3000, check=False)
        finally:
            os.remove(os.path.join(tlc.SPEC_DIR, cfg))
        return [x["c"] for x in r.by_tag("LIB")]
    ks = core.cached("c19cases" + sh, emit)
    seen, uniq = set(), []
    for k in ks:
        s = json.dumps(k, sort_keys=True)
        if s not in seen:
            seen.add(s)
            uniq.append(k)
    cases = [run_case({"id": "k%d" % i, "c": k}) for i, k in enumerate(uniq)]
    cases += file_cases() + std_cases()
    by_id = {c["id"]: c for c in cases}
    res, fails = validate(cases)
    cc = collections.Counter()
    for f in fails:
        for cl in f["clauses"]:
            cc[cl[0]] += 1
            V.report(cl[0], cl[1], by_id[f["id"]], text="case=%s" % f["id"])
    kinds = collections.Counter(c.get("c", {}).get("kind", c["tag"]) for c in cases)
    # the standard-type library as a state machine: parameters reach created pipes unchanged, the library changes by library calls only
    from . import stdtype
    stdcov = stdtype.part(V, "C19", tr, sd, ("library_changed", "library_not_as_requested", "other_library_entries_changed",
                                             "row_differs_from_type", "retyped_row_differs", "unknown_event"))
    cov = {"states": mc.distinct, "transitions": mc.generated, "traces_validated_against_impl": len(cases),
           "samples": [cases[10], cases[-1]], "cases_by_kind": dict(kinds), "exhaustive": True,
           "failing_clause_counts": dict(cc), "trace_spec_states": res.distinct, **stdcov,
           "evaluations": len(cases), "distinct_nontrivial": len(cases),
           "rule": "every case of GenLib.Cases (class x operation x argument shape x argument position), every property file of every "
                   "library fluid, every library pipe type; all cases are distinct and exercise a function call"}
    rc = V.finish()
    core.write_evidence("C19", "model_checking", cov, time.time() - t0, len(V.violations),
                        assumptions=["library-file expectations are an oracle table parsed from the data files with decimal arithmetic (tolerance 2e-11 relative)",
                                     "polynomial and Sutherland property classes and the viscosity mixing rule (square roots) are outside the rational reference"])
    print("C19 %s: reference cases=%d (model states %d), file/std cases=%d, violations=%d, known=%d, %.0fs"
          % (tr, len(uniq), mc.distinct, len(cases) - len(uniq), len(V.violations), len(V.known), time.time() - t0))
    return rc


def replay(path):
    rec = json.load(open(path))
    c = rec["case"]
    if c["tag"] != "case":
        cases = [x for x in file_cases() + std_cases() if x["id"] == c["id"]]
    else:
        cases = [run_case({"id": c["id"], "c": c["c"]})]
    res, fails = validate(cases)
    for f in fails:
        print("FAIL", f)
    return 1 if fails else 0
