"""C20 - multi-energy coupling conserves energy and equals the decoupled calculation."""
import collections, copy, hashlib, json, os, random, time, logging, warnings, math
from fractions import Fraction
import numpy as np
from . import core, tlc
from .c19 import rat_round

warnings.filterwarnings("ignore")
logging.disable(logging.CRITICAL)


def fr(q):
    return Fraction(q[0], q[1])


def gas_net(hhv, tag):
    import pandapipes as pp
    from pandapipes.properties.fluids import create_constant_fluid
    fl = create_constant_fluid("designed_gas_%s" % tag, "gas", density=0.8, viscosity=1.1e-5, heat_capacity=2000.0, molar_mass=16.0,
                               compressibility=1.0, der_compressibility=0.0, hhv=float(hhv), lhv=float(hhv) * 0.9)
    net = pp.create_empty_network("gas_%s" % tag, fluid=fl)
    j = pp.create_junctions(net, 4, 1.0, 290.0)
    pp.create_ext_grid(net, j[0], 1.0, 290.0, type="pt")
    pp.create_pipes_from_parameters(net, [j[0], j[1], j[2]], [j[1], j[2], j[3]], 0.5, 150.0, k_mm=0.05)
    pp.create_sinks(net, [j[1], j[2], j[3]], [0.01, 0.02, 0.015], index=[4, 2, 7])
    pp.create_sources(net, [j[2], j[3]], [0.001, 0.002], index=[5, 1])
    pp.set_user_pf_options(net, use_numba=False)
    return net


def power_net():
    import pandapower as ppw
    net = ppw.create_empty_network()
    b = ppw.create_buses(net, 3, 20.0)
    ppw.create_ext_grid(net, b[0])
    ppw.create_lines_from_parameters(net, [b[0], b[1]], [b[1], b[2]], 1.0, 0.1, 0.1, 0.0, 1.0)
    ppw.create_loads(net, [b[1], b[2], b[2]], [0.3, 0.4, 0.2], index=[3, 6, 1])
    ppw.create_sgens(net, [b[1], b[2]], [0.1, 0.2], index=[2, 9])
    return net


def _dig(df_list):
    h = hashlib.sha1()
    for df in df_list:
        h.update(np.round(np.nan_to_num(np.asarray(df.values, dtype=float), nan=-999.0), 9).tobytes())
    return h.hexdigest()[:12]


def gas_results(net):
    return _dig([net.res_junction, net.res_pipe[["mdot_from_kg_per_s", "p_from_bar", "p_to_bar"]], net.res_sink, net.res_source, net.res_ext_grid])


def power_results(net):
    return _dig([net.res_bus[["vm_pu", "va_degree"]], net.res_line[["p_from_mw", "q_from_mvar"]], net.res_ext_grid])


def setter_controller():
    """a minimal in-net controller for level 0: writes given values into a table column once"""
    from pandapower.control.basic_controller import Controller

    class SetValues(Controller):
        def __init__(self, net, table, column, index, values, level=0, order=0, **kw):
            super().__init__(net, in_service=True, order=order, level=level, **kw)
            self.table, self.column, self.elm_index, self.values, self.applied = table, column, list(index), list(values), False

        def initialize_control(self, net):
            self.applied = False

        def control_step(self, net):
            net[self.table].loc[self.elm_index, self.column] = self.values
            self.applied = True

        def is_converged(self, net):
            return self.applied
    return SetValues


def run_case(job):
    import pandapipes as pp
    import pandapower as ppw
    from pandapipes.multinet.create_multinet import create_empty_multinet, add_nets_to_multinet
    from pandapipes.multinet.control.run_control_multinet import run_control
    import pandapipes.multinet.control.controller.multinet_control as mc
    k = job["k"]
    kind, inp, sc, eff = k["kind"], float(fr(k["inp"])), float(fr(k["sc"])), float(fr(k["eff"]))
    case = {"id": job["id"], "k": k, "k0": job["k"], "raised": "", "written": [], "nets": [], "multinet_converged": False, "others_same": True}
    try:
        mn = create_empty_multinet("m")
        g1, pw = gas_net(fr(k["h"]), "a"), power_net()
        nets = {"power": pw, "gas": g1}
        if kind == "G2G":
            nets["gas2"] = gas_net(fr(k["h2"]), "b")
        add_nets_to_multinet(mn, **nets)
        vec = bool(k["vec"])
        lvl = int(k["level"])
        # the coupled elements; a second pair (vectorised case) carries half the input
        pairs = [(6, 5, inp)] + ([(1, 1, inp / 2)] if vec else [])       # (power/src index, gas index, input value)
        if kind == "P2G":
            for pi, gi, v in pairs:
                pw.load.loc[pi, ["p_mw", "scaling"]] = (v if lvl == 0 else 0.0), sc
            if lvl == 1:        # the input arrives through a controller of the power net on the level before the coupling
                setter_controller()(pw, "load", "p_mw", [p[0] for p in pairs], [p[2] for p in pairs], level=0)
            mc.P2GControlMultiEnergy(mn, [p[0] for p in pairs] if vec else 6, [p[1] for p in pairs] if vec else 5, eff, level=lvl)
            tgt = ("gas", "source", [p[1] for p in pairs])
        elif kind == "G2P_gas":
            pairs = [(9, 2, inp / 10)] + ([(2, 7, inp / 20)] if vec else [])
            for pi, gi, v in pairs:
                g1.sink.loc[gi, ["mdot_kg_per_s", "scaling"]] = v, sc
            mc.G2PControlMultiEnergy(mn, [p[0] for p in pairs] if vec else 9, [p[1] for p in pairs] if vec else 2, eff, level=lvl)
            tgt = ("power", "sgen", [p[0] for p in pairs])
            k = dict(k, inp=[k["inp"][0], k["inp"][1] * 10])
        elif kind == "G2P_power":
            pairs = [(9, 2, inp)] + ([(2, 7, inp / 2)] if vec else [])
            for pi, gi, v in pairs:
                pw.sgen.loc[pi, ["p_mw", "scaling"]] = v, sc
            mc.G2PControlMultiEnergy(mn, [p[0] for p in pairs] if vec else 9, [p[1] for p in pairs] if vec else 2, eff, level=lvl,
                                     calc_gas_from_power=True)
            tgt = ("gas", "sink", [p[1] for p in pairs])
        else:
            pairs = [(4, 5, inp / 10)] + ([(7, 1, inp / 20)] if vec else [])
            for si, di, v in pairs:
                g1.sink.loc[si, ["mdot_kg_per_s", "scaling"]] = v, sc
            mc.GasToGasConversion(mn, [p[0] for p in pairs] if vec else 4, [p[1] for p in pairs] if vec else 5, eff,
                                  name_gas_net_from="gas", name_gas_net_to="gas2", level=lvl)
            tgt = ("gas2", "source", [p[1] for p in pairs])
            k = dict(k, inp=[k["inp"][0], k["inp"][1] * 10])
        case["k"] = k
        before = {n: copy.deepcopy(nets[n]) for n in nets}
        run_control(mn)
        if kind == "P2G" and lvl == 1:
            for pi, gi, v in pairs:
                before["power"].load.loc[pi, "p_mw"] = v
        col = "p_mw" if tgt[1] == "sgen" else "mdot_kg_per_s"
        vals = [float(nets[tgt[0]][tgt[1]].loc[i, col]) for i in tgt[2]]
        # first pair carries the configuration's input; the second pair (vectorised) half of it: report it doubled
        case["written"] = [rat_round(vals[0])] + ([rat_round(vals[1] * 2)] if len(vals) > 1 else [])
        # rows the controller was not asked to write keep their values
        tb = before[tgt[0]][tgt[1]]
        ta = nets[tgt[0]][tgt[1]]
        others = [i for i in tb.index if i not in tgt[2]]
        case["others_same"] = bool(np.array_equal(tb.loc[others].values.astype(str), ta.loc[others].values.astype(str)))
        # every member net: results of the coupled run = stand-alone calculation with the written values
        for name, net in nets.items():
            fresh = copy.deepcopy(before[name])
            if name == tgt[0]:
                fresh[tgt[1]].loc[tgt[2], col] = nets[tgt[0]][tgt[1]].loc[tgt[2], col].values
            if name == "power":
                try:
                    ppw.runpp(fresh)
                    sa, conv = power_results(fresh), bool(net.converged)
                    cp = power_results(net)
                except Exception:  # noqa
                    sa, cp, conv = "raised", "x", False
            else:
                try:
                    pp.pipeflow(fresh)
                    sa, conv = gas_results(fresh), bool(net.converged)
                    cp = gas_results(net)
                except Exception:  # noqa
                    sa, cp, conv = "raised", "x", False
            case["nets"].append({"net": name, "coupled": cp, "standalone": sa, "converged": conv})
        case["multinet_converged"] = bool(all(bool(n.converged) for n in nets.values())) if not hasattr(mn, "converged") else bool(mn.converged)
    except Exception as e:  # noqa
        case["raised"] = "%s" % type(e).__name__
    return case


def validate(cases):
    sc = core.Scratch()
    try:
        p = sc.path("trace.ndjson")
        core.write_ndjson(p, cases)
        res = tlc.run("Trace_Multi", env={"TRACE_FILE": p}, check=True, timeout=3000)
        s = res.by_tag("SUMMARY")
        if not s or s[0]["cases"] != len(cases):
            raise tlc.TLCError("trace not consumed: %s" % s)
        return res, res.by_tag("FAIL")
    finally:
        sc.cleanup()


def main():
    t0 = time.time()
    tr, sd = core.tier(), core.seed()
    V = core.Verdicts("C20")
    rnd = random.Random(sd)
    mc = tlc.run("GenMulti", workers=core.nworkers(), timeout=3000, check=True)
    sh = core.spec_hash("Rat", "PPMulti", "GenMulti")

    def emit():
        cfg = "_multi_%d.cfg" % os.getpid()
        with open(os.path.join(tlc.SPEC_DIR, cfg), "w") as f:
            f.write("SPECIFICATION Spec\nINVARIANT Emit\nCHECK_DEADLOCK FALSE\n")
        try:
            r = tlc.run("GenMulti", cfg=cfg, workers=1, timeout=3000, check=False)
        finally:
            os.remove(os.path.join(tlc.SPEC_DIR, cfg))
        seen, out = set(), []
        for x in r.by_tag("MULTI"):
            s = json.dumps(x["k"], sort_keys=True)
            if s not in seen:
                seen.add(s)
                out.append(x["k"])
        return out
    ks = core.cached("c20cfg" + sh, emit)
    ks = [k for k in ks if k["eff2"] == [1, 1]]      # eff2 only matters for the model-level round trip law
    if tr == "quick":
        ks = rnd.sample(ks, min(len(ks), 150))
    jobs = [{"id": "m%d" % i, "k": k} for i, k in enumerate(ks)]
    cases = core.pmap(run_case, jobs, chunksize=4)
    by_id = {c["id"]: c for c in cases}
    res, fails = validate(cases)
    cc = collections.Counter()
    for f in fails:
        for cl in f["clauses"]:
            cc[cl[0]] += 1
            V.report(cl[0], "%s|%s" % (cl[1], cl[2]), by_id[f["id"]], text="case=%s" % f["id"])
    # the control loop itself: several coupling / in-net controllers on levels and orders (MC_MultiCtl, Trace_MultiCtl)
    from . import multictl
    ctl = multictl.part(V, tr, sd)
    cov = {"states": mc.distinct + ctl["control_loop_model_states"], "transitions": mc.generated, "traces_validated_against_impl": len(cases) + ctl["control_loop_runs"],
           **ctl,
           "samples": [cases[0]], "configurations_in_model": mc.distinct, "runs": len(cases),
           "by_kind": dict(collections.Counter(c["k"]["kind"] for c in cases)),
           "vectorised": sum(1 for c in cases if c["k"]["vec"]),
           "failing_clause_counts": dict(cc), "trace_spec_states": res.distinct,
           "evaluations": len(cases), "distinct_nontrivial": sum(1 for c in cases if c["k"]["vec"]),
           "rule": "coupling configurations of GenMulti (4 controller kinds x inputs x scalings x efficiencies x scalar/vectorised x level) + configurations of the control-loop model MC_MultiCtl (controller subsets x levels x orders) run through run_control; "
                   "non-trivial = vectorised element indices"}
    rc = V.finish()
    core.write_evidence("C20", "model_checking", cov, time.time() - t0, len(V.violations),
                        assumptions=["designed gases with heating values 10 and 20 kWh/kg (constant properties)",
                                     "control-loop part: up to three controllers (three coupling kinds, two in-net setters) on two levels x three orders over three member nets (MC_MultiCtl); coupled time series are not enumerated",
                                     "round trip = product of efficiencies is checked on the model (TLC) and per direction on the implementation"])
    print("C20 %s: model configurations=%d, coupled runs=%d, violations=%d, known=%d, %.0fs"
          % (tr, mc.distinct, len(cases), len(V.violations), len(V.known), time.time() - t0))
    return rc


def replay(path):
    rec = json.load(open(path))
    c = rec["case"]
    k = dict(c.get("k0", c["k"]))
    case = run_case({"id": c["id"], "k": k})
    res, fails = validate([case])
    for f in fails:
        print("FAIL", f)
    return 1 if fails else 0
