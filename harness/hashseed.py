"""Replay of editing histories under different string-hash seeds.

create_continuous_elements_index (and everything else that iterates over a Python set of table names) processes the tables in the
set's iteration order, which depends on PYTHONHASHSEED: that order is the nondeterminism of spec/MC_ContAll.tla.  Each seed needs its own
interpreter; this module is run as  PYTHONHASHSEED=<s> python -m harness.hashseed  with the jobs as JSON on stdin and prints the trace
cases (Trace_Edit format) as JSON on stdout."""
import json, os, subprocess, sys


def child():
    from . import edit
    jobs = json.load(sys.stdin)
    out = []
    for j in jobs:
        c = edit.replay(j)
        try:
            from pandapipes.pandapipes_net import pandapipesNet  # noqa
            from pandapower.toolbox import pp_elements  # noqa
        except Exception:  # noqa
            pass
        c["hashseed"] = os.environ.get("PYTHONHASHSEED", "")
        out.append(c)
    sys.stdout.write("\n@@CASES@@" + json.dumps(out))


def run_seed(args):
    seed, jobs = args
    env = dict(os.environ, PYTHONHASHSEED=str(seed))
    root = os.path.dirname(os.path.dirname(os.path.abspath(__file__)))
    p = subprocess.run([sys.executable, "-m", "harness.hashseed"], input=json.dumps(jobs), cwd=root, env=env,
                       stdout=subprocess.PIPE, stderr=subprocess.PIPE, text=True, timeout=1800)
    if "@@CASES@@" not in p.stdout:
        raise RuntimeError("hash-seed child %s failed: %s" % (seed, p.stderr[-2000:]))
    cases = json.loads(p.stdout.split("@@CASES@@", 1)[1])
    for c in cases:
        c["id"] = "%s.hs%s" % (c["id"], seed)
    return cases


if __name__ == "__main__":
    child()
