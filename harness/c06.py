"""C06 via the designed-exact reference family (see harness/ref.py, spec/PPRefHyd.tla, spec/Trace_Ref.tla)."""
from . import ref

RULE = {"C02": "designed liquid scenarios (trees + chords with derived loss coefficients), every pipe / valve / heat exchanger cell compared with the exact law; non-trivial = >= 3 junctions",
        "C06": "each scenario rebuilt with gapped / threshold-crossing / huge junction labels, unsorted branch and load labels and shuffled table rows; same exact prediction",
        "C08": "each scenario started from pn_bar 0.6 / 30 / 9 / 2 bar and with automatic damping; same exact prediction",
        "C09": "each scenario rebuilt with sectioned pipes split into series pipes, demands split over several scaled sinks, sources as negative sinks, switched-off extra elements; same exact prediction"}


def main():
    from . import core, c01
    V = core.Verdicts("C06")
    extra = c01.relational_part(V, "C06", "iso", core.tier(), core.seed())
    from . import gas
    extra.update(gas.gas_part(V, "C06", core.tier(), core.seed(), [{"labels": [48, 3, 17, 51, 49, 50]}, {"labels": [100001, 99999, 100000, 7, 2000003, 5]}]))
    rc1 = V.finish()
    rc2 = ref.run_check("C06", RULE["C06"], extra_cov=extra, prior_violations=len(V.violations))
    return 1 if (rc1 or rc2) else 0


def replay(path):
    import json
    rec = json.load(open(path))
    if "rel" in rec["case"]:
        from . import pf, c04, c01
        c = rec["case"]
        an = {"J": [dict(lab=j["lab"], svc=j["svc"]) for j in c["net"]["J"]],
              "E": [{k: e[k] for k in ("tbl", "lab", "a", "b", "et", "svc", "ca", "cj", "typ", "sec")} for e in c["net"]["E"]],
              "N": [{k: n[k] for k in ("tbl", "lab", "j", "svc", "typ")} for n in c["net"]["N"]]}
        print("relational case: re-run through ./check C06 (seeded by the case id); net:", json.dumps(an)[:300])
        return 0
    return ref.replay_file("C06", path)
