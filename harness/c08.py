"""C08 via the designed-exact reference family (see harness/ref.py, spec/PPRefHyd.tla, spec/Trace_Ref.tla)."""
from . import ref

RULE = {"C02": "designed liquid scenarios (trees + chords with derived loss coefficients), every pipe / valve / heat exchanger cell compared with the exact law; non-trivial = >= 3 junctions",
        "C06": "each scenario rebuilt with gapped / threshold-crossing / huge junction labels, unsorted branch and load labels and shuffled table rows; same exact prediction",
        "C08": "each scenario started from pn_bar 0.6 / 30 / 9 / 2 bar and with automatic damping; same exact prediction",
        "C09": "each scenario rebuilt with sectioned pipes split into series pipes, demands split over several scaled sinks, sources as negative sinks, switched-off extra elements; same exact prediction"}


def main():
    from . import core, gas
    V = core.Verdicts("C08")
    extra = gas.gas_part(V, "C08", core.tier(), core.seed(), [{"pn": 0.3}, {"pn": 25.0, "method": "automatic"}])      # designed gas family (real-gas law, K = 1)
    rc1 = V.finish()
    rc2 = ref.run_check("C08", RULE["C08"], extra_cov=extra, prior_violations=len(V.violations))
    return 1 if (rc1 or rc2) else 0


def replay(path):
    return ref.replay_file("C08", path)
