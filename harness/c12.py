"""C12 - pipeflow is a pure, repeatable function of the network description."""
import json, os, time, random, collections, copy, hashlib
import numpy as np
from . import core, tlc
from .c05 import gen_hist

# generator configurations (alphabets kept small so that 3-op histories are exhaustive):
#  A: all modes x budgets with parameter edits; B: hydraulic runs x matrix-update/reuse options x structural
#  edits; C: stored user options (iter shorthand) x budgets
HIST_A = {"Modes": '= {"hydraulics", "sequential", "bidirectional", "heat"}', "Budgets": '= {"ample", "starved"}',
          "Methods": '= {"constant"}', "TolSets": '= {"default"}', "Matrix": '= {"plain"}', "EditOps": '= {"edit"}'}
HIST_B = {"Modes": '= {"hydraulics", "sequential"}', "Budgets": '= {"ample"}', "Methods": '= {"constant"}',
          "TolSets": '= {"default"}', "Matrix": '= {"plain", "update", "reuse"}', "EditOps": '= {"edit", "struct"}'}
HIST_C = {"Modes": '= {"hydraulics", "sequential"}', "Budgets": '= {"ample", "starved"}', "Methods": '= {"constant", "automatic"}',
          "TolSets": '= {"default"}', "Matrix": '= {"plain"}', "EditOps": '= {"user"}'}


def _opts(op):
    from . import hist as H
    return H.run_options(op)


def _thermal_vec(net):
    from .netio import limbs, TSCALE
    v = [limbs(x, TSCALE) for x in net.res_junction.t_k.values]
    for t in ("res_pipe", "res_valve", "res_heat_exchanger", "res_heat_consumer", "res_pump",
              "res_circ_pump_pressure", "res_circ_pump_mass", "res_flow_control", "res_press_control"):
        if t in net and len(net[t]):
            for c in ("t_from_k", "t_to_k", "t_outlet_k"):
                if c in net[t].columns:
                    v += [limbs(x, TSCALE) for x in net[t][c].values]
    return v


def _run(net, op, svec):
    import pandapipes as pp
    from pandapipes.pf.pipeflow_setup import PipeflowNotConverged
    from . import pf
    kw = {}
    if op["mode"] == "heat" and svec is not None:
        kw["sol_vec"] = svec
    try:
        pp.pipeflow(net, **kw, **_opts(op))
        out = "returned"
    except PipeflowNotConverged:
        out = "PipeflowNotConverged"
    except Exception as e:  # noqa
        out = "raised:%s:%s" % (type(e).__name__, str(e)[:60])
    oc = pf.oclass(out)
    if op["mode"] == "heat" and ("Converged flag" in out or "user_pf_options" in out or "hyd_flag" in out):
        oc = "usage_error"
    return oc


def replay_history(job):
    import logging, warnings
    logging.disable(logging.CRITICAL)
    warnings.filterwarnings("ignore")
    from . import hist as H
    net, knobs = H.NETS[job["net"]]()
    saved, svec, uop = {}, None, None
    applied = []            # description-changing ops so far (to rebuild a fresh net in the same condition)
    events = []
    for k, op in enumerate(job["hist"]):
        if op["op"] in H.EDIT_KEY or op["op"] == "setuser":
            H.apply_edit(net, knobs, op, saved)
            if op["op"] == "setuser":
                uop = op
            elif op["op"] in H.APPLY_OPS:
                applied.append(H.EDIT_KEY[op["op"]])
            else:
                applied.remove(H.EDIT_KEY[op["op"]])
            events.append({"op": op["op"]})
            svec = None          # a stored hydraulic solution belongs to the description it was computed for
            continue
        if op["op"] != "run":
            continue
        if op["mode"] == "heat" and svec is None and net.get("user_pf_options", {}).get("hyd_flag", False):
            events.append({"op": "skip"})   # no stored solution of THIS description to start from
            continue
        if uop is not None and uop["v"] != "clear":
            op = dict(op, uopts_iter=uop["v"])
        before = H.description_digests(net)
        oc = _run(net, op, svec)
        after = H.description_digests(net)
        resdig = H.result_digest(net)
        # the same call on a fresh net object carrying the same description
        fnet, fk = H.NETS[job["net"]]()
        # normalise what the first calculation is known to be allowed to need: nothing. (fresh = as built)
        for key in applied:
            H.apply_knob(fnet, fk[key])
        if uop is not None:
            H.apply_edit(fnet, fk, uop, {})
        fsvec = None
        seq_tvec = []
        if op["mode"] == "heat":
            # a stored hydraulic solution is needed: produce it on the fresh net by a sequential run, keep
            # that run's thermal results for the heat == sequential clause
            o2 = _run(fnet, dict(op, mode="sequential", budget="ample"), None)
            if o2 == "returned":
                fsvec = H.sol_vec(fnet)
                seq_tvec = _thermal_vec(fnet)
            if svec is None:
                fsvec = None
                fnet, fk = H.NETS[job["net"]]()
                for key in applied:
                    H.apply_knob(fnet, fk[key])
                if uop is not None:
                    H.apply_edit(fnet, fk, uop, {})
        foc = _run(fnet, op, fsvec)
        fres = H.result_digest(fnet)
        # C07: the same calculation without the matrix-update / reuse option, on another fresh net
        plain_oc, plain_cls = "", ""
        if op.get("matrix") in ("update", "reuse"):
            pnet, pk = H.NETS[job["net"]]()
            for key in applied:
                H.apply_knob(pnet, pk[key])
            if uop is not None:
                H.apply_edit(pnet, pk, uop, {})
            plain_oc = _run(pnet, dict(op, matrix="plain"), None)
            plain_cls = H.results_diff_class(net, pnet) if (oc == "returned" and plain_oc == "returned") else ""
        ev = {"op": "run", "mode": op["mode"], "oclass": oc, "before": before, "after": after,
              "resdig": resdig if oc == "returned" else "none",
              "fresh_oclass": foc, "fresh_resdig": fres if foc == "returned" else "none",
              "plain_oclass": plain_oc, "plain_class": plain_cls,
              "key": hashlib.sha1(json.dumps([before, _opts(op), (hashlib.sha1(svec.tobytes()).hexdigest()
                                              if (svec is not None and op["mode"] == "heat") else "")],
                                             sort_keys=True).encode()).hexdigest()[:12],
              "tvec": _thermal_vec(net) if (op["mode"] == "heat" and oc == "returned") else [],
              "seq_tvec": seq_tvec if (op["mode"] == "heat" and oc == "returned") else [],
              "ttol": 2000}
        if op["mode"] == "heat" and oc == "returned" and not seq_tvec:
            ev["seq_tvec"] = ev["tvec"]
        events.append(ev)
        # the stored hydraulic solution a later thermal-only run starts from: that of the last returned
        # hydraulics / sequential run (a bidirectional solution is a different hydraulic state)
        if oc == "returned" and op["mode"] in ("hydraulics", "sequential"):
            svec = H.sol_vec(net)
    return {"id": job["id"], "net": job["net"], "hist": job["hist"], "events": events}


def validate(cases):
    sc = core.Scratch()
    try:
        p = sc.path("trace.ndjson")
        core.write_ndjson(p, cases)
        res = tlc.run("Trace_Hist", env={"TRACE_FILE": p}, check=True, timeout=3000)
        s = res.by_tag("SUMMARY")
        if not s or s[0]["cases"] != len(cases):
            raise tlc.TLCError("trace not consumed: %s" % s)
        return res, res.by_tag("FAIL")
    finally:
        sc.cleanup()


def main():
    t0 = time.time()
    tr, sd = core.tier(), core.seed()
    V = core.Verdicts("C12")
    rnd = random.Random(sd)
    mh = tlc.run("MC_Hist", workers=core.nworkers(), timeout=3000, check=True)
    sh = core.spec_hash("MC_Hist")
    hs = []
    per = {"A": 220, "B": 260, "C": 160}
    for name, consts in (("A", HIST_A), ("B", HIST_B), ("C", HIST_C)):
        h3 = core.cached("c12h3" + name + sh, lambda: gen_hist(dict(consts, MaxOps="= 3"))[1])
        h5 = core.cached("c12h5%s_%d_%s" % (name, sd, tr) + sh, lambda: gen_hist(
            dict(consts, MaxOps="= 5"), simulate="num=%d" % (60 if tr == "quick" else 1200), depth=6, seed=sd + 11)[1])
        if tr == "quick":
            h3 = rnd.sample(h3, min(len(h3), per[name]))
        hs += h3 + h5
    hs = [h for h in hs if sum(1 for o in h if o["op"] == "run") >= 1]
    jobs = [{"id": "%s%d" % (n[0], i), "net": n, "hist": h} for i, h in enumerate(hs)
            for n in ("heating_loop", "branched")]
    # histories with structural edits also on the net whose structural edit relabels a row (results must follow the new labels)
    jobs += [{"id": "r%d" % i, "net": "branched_relabel", "hist": h} for i, h in enumerate(hs) if any(o["op"] == "struct_off" for o in h)]
    cases = core.pmap(replay_history, jobs, chunksize=4)
    by_id = {c["id"]: c for c in cases}
    res, fails = validate(cases)
    cc = collections.Counter()
    for f in fails:
        for cl in f["clauses"]:
            if "matrix_option" in cl[0]:
                continue            # neutrality of the matrix options is C07's property (same clauses, reported there)
            cc[cl[0]] += 1
            V.report(cl[0], cl[1], by_id[f["id"]], text="event=%s case=%s" % (f["ev"], f["id"]))
    runs = [e for c in cases for e in c["events"] if e["op"] == "run"]
    cov = {"states": mh.distinct, "transitions": mh.generated, "traces_validated_against_impl": len(cases),
           "samples": [cases[0]], "pipeflow_calls": len(runs),
           "calls_by_outcome": dict(collections.Counter(e["oclass"] for e in runs)),
           "heat_vs_sequential_comparisons": sum(1 for e in runs if e["mode"] == "heat" and e["oclass"] == "returned"),
           "failing_clause_counts": dict(cc), "trace_spec_states": res.distinct,
           "evaluations": len(runs), "distinct_nontrivial": sum(1 for c in cases if sum(1 for e in c["events"] if e["op"] == "run") >= 2),
           "rule": "call histories emitted by TLC from MC_Hist (all <=3-op histories, sampled in quick; simulated 5-op histories) on two "
                   "real nets; every run is compared with the same call on a fresh net object; non-trivial = history with >=2 runs"}
    rc = V.finish()
    core.write_evidence("C12", "model_checking", cov, time.time() - t0, len(V.violations),
                        assumptions=["digests (harness/hist.py) hash values, dtypes, index and column order of every element table, fluid property "
                                     "values on a probe grid, std-type names, user options without hyd_flag",
                                     "hyd_flag is solver state kept in user_pf_options and excluded from 'user options'"])
    print("C12 %s: history model states=%d, histories=%d, pipeflow calls=%d, violations=%d, known=%d, %.0fs"
          % (tr, mh.distinct, len(cases), len(runs), len(V.violations), len(V.known), time.time() - t0))
    return rc


def replay(path):
    rec = json.load(open(path))
    c = rec["case"]
    case = replay_history({"id": c["id"], "net": c["net"], "hist": c["hist"]})
    res, fails = validate([case])
    for f in fails:
        print("FAIL", f)
    return 1 if fails else 0
