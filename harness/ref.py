"""Designed-exact conformance runs (shared by C01, C02, C03, C06, C07, C08, C09)."""
import json, math, os, random, time, collections, logging, warnings
import numpy as np
from . import core, tlc, designed as D

warnings.filterwarnings("ignore")
logging.disable(logging.CRITICAL)
NAN = [1, 0]


def obs(x, scale):
    x = float(x)
    if math.isnan(x) or math.isinf(x):
        return [1, 0]
    n = int(round(x * scale))
    if abs(n) >= 2 ** 31 - 1:
        return [1, 0]
    return [0, n]


def gen(consts, simulate=None, depth=None, seed=0, timeout=1800, workers=1):
    cfgname = "_hyd_%d.cfg" % os.getpid()
    path = os.path.join(tlc.SPEC_DIR, cfgname)
    with open(path, "w") as f:
        f.write("SPECIFICATION Spec\nCONSTANTS\n")
        for k, v in consts.items():
            f.write("  %s %s\n" % (k, v))
        f.write("  EmitOn = TRUE\n%sCHECK_DEADLOCK FALSE\n" % ("" if simulate else "INVARIANT Emit\n"))
    try:
        r = tlc.run("GenHyd", cfg=cfgname, workers=workers, simulate=simulate, depth=depth, seed=seed,
                    timeout=timeout, check=False)
    finally:
        os.remove(path)
    seen, out = set(), []
    for rec in r.by_tag("SCEN"):
        k = json.dumps(rec["s"], sort_keys=True)
        if k not in seen:
            seen.add(k)
            out.append(rec)
    return r, out


FM_ALL = '= {"nikuradse", "colebrook", "swamee-jain"}'
FM_NIK = '= {"nikuradse"}'
GEN_SMALL = {"ThermalOn": "= FALSE", "MaxNodes": "= 3", "MaxChords": "= 1", "Demands": "<- DemandsSmall", "NVals": "= {0, 160}",
             "ZetaVals": "= {0, 2}", "SecVals": "= {1, 3}", "HVals": "= {1, 2}", "ChordFlows": "<- ChordFlowsSmall",
             "Kinds": "<- KindsAll", "MaxSteps": "= 2", "FdVals": "= {1}", "TeVals": "= {1}", "DtVals": "= {0}", "FmVals": FM_ALL}
GEN_BIG = {"ThermalOn": "= FALSE", "MaxNodes": "= 6", "MaxChords": "= 2", "Demands": "<- DemandsDef", "NVals": "= {0, 160, 320, 1600}",
           "ZetaVals": "= {0, 1, 2}", "SecVals": "= {1, 2, 3}", "HVals": "= {1, 2, 3}", "ChordFlows": "<- ChordFlowsDef",
           "Kinds": "<- KindsAll", "FdVals": "= {1}", "TeVals": "= {1}", "DtVals": "= {0}", "FmVals": FM_ALL}


def scenarios(tier, seed, rnd):
    """scenario pool: exhaustive small space (cached) + seeded simulation of the large one"""
    sh = core.spec_hash("PPRefHyd", "GenHyd")
    # quick: every one-branch scenario (exhaustive) + simulation; thorough: every two-element scenario as well
    if tier == "quick":
        small = core.cached("hydsmall1" + sh, lambda: [r for r in gen(dict(GEN_SMALL, MaxSteps="= 1", NVals="= {0, 160, 1600}", HVals="= {1, 2, 3}", ZetaVals="= {0, 1, 2}", Demands="<- DemandsDef"))[1]])
        small += core.cached("hydsmall2s%d" % seed + sh, lambda: gen(dict(GEN_SMALL, MaxSteps="= 2"), simulate="num=250", depth=4, seed=seed + 101)[1])
    else:
        small = core.cached("hydsmall" + sh, lambda: [r for r in gen(GEN_SMALL)[1]])
    big = []
    for steps, num in ((3, 60), (4, 80), (5, 120), (7, 120)):
        n = num if tier == "quick" else num * 12
        big += core.cached("hydbig%d_%d_%d_%s" % (steps, n, seed, sh),
                           lambda: gen(dict(GEN_BIG, MaxSteps="= %d" % steps), simulate="num=%d" % n, depth=steps + 2,
                                       seed=seed * 7 + steps)[1])
    return small, big


def normalise(s):
    s = json.loads(json.dumps(s))
    if isinstance(s.get("chords"), dict):
        s["chords"] = []
    for k in ("hm", "pamb"):
        if isinstance(s[k], list):
            s[k] = {str(i + 1): v for i, v in enumerate(s[k])}
    return s


def run_case(job):
    """job: {id, s, variant:{labels, order, numba, opts, pn}} -> trace case with observations"""
    import pandapipes as pp
    from pandapipes.pf.pipeflow_setup import PipeflowNotConverged
    s = normalise(job["s"])
    var = job.get("variant") or {}
    tabs = D.oracle_tables()
    s["hm"], s["pamb"] = tabs["hm"], tabs["pamb"]      # oracle tables computed from the documented formula
    sb = dict(s)
    if job.get("flows"):
        sb["mflows"] = job["flows"]        # the designed flows (from the specification): roughness of colebrook / swamee-jain pipes
    if "pn" in var:
        sb["pn"] = var["pn"]
    labels = {int(k): v for k, v in var["labels"].items()} if var.get("labels") else None
    net, meta = D.build(sb, labels=labels, var=var)
    if var.get("shuffle") is not None:
        r = random.Random(var["shuffle"])
        for t in ("junction", "pipe", "valve", "heat_exchanger", "sink", "source", "ext_grid"):
            if t in net and len(net[t]) > 1:
                idx = list(net[t].index)
                r.shuffle(idx)
                net[t] = net[t].loc[idx]
    opts = {"use_numba": bool(var.get("numba", False)), "tol_p": 1e-10, "tol_m": 1e-10, "tol_res": 1e-8, "iter": 100}
    if s.get("fm", "nikuradse") != "nikuradse":
        opts.update(friction_model=s["fm"], max_iter_colebrook=100, tolerance_colebrook=1e-13)
    opts.update(var.get("opts") or {})
    try:
        pp.pipeflow(net, **opts)
        outcome = "returned"
    except PipeflowNotConverged:
        outcome = "PipeflowNotConverged"
    except Exception as e:  # noqa
        outcome = "raised:%s" % type(e).__name__
    case = {"id": job["id"], "s": s, "variant": var, "outcome": outcome, "family": job.get("family", ""), "flows": job.get("flows") or []}
    if outcome != "returned":
        case["obs"] = {"nodes": [], "branches": [], "chords": [], "feeders": []}
        return case
    nodes = [None]
    inc = collections.defaultdict(list)     # junction label -> list of signed reported flows (ticks) into the junction

    def branch_obs(tbl, lab, lab_to=None):
        if lab_to is not None and lab_to != lab:
            # series of segments standing for one pipe: from-end cells of the first, to-end cells of the last
            o = branch_obs(tbl, lab)
            o2 = branch_obs(tbl, lab_to)
            o["pt"], o["mt"] = o2["pt"], o2["mt"]
            # the intermediate junctions see the middle segments as well; their balance is not part of the scenario
            return o
        rt = net["res_" + tbl].loc[lab]
        row = net[tbl].loc[lab]
        fcol, tcol = ("junction", "element") if tbl == "valve" else ("from_junction", "to_junction")
        if tbl == "pump" and "v_mean_m_per_s" not in rt.index:
            pass
        o = {"pf": obs(rt.p_from_bar, 1e6), "pt": obs(rt.p_to_bar, 1e6), "mf": obs(rt.mdot_from_kg_per_s, 1e6),
             "mt": obs(rt.mdot_to_kg_per_s, 1e6),
             "v": obs(rt.v_mean_m_per_s, 1e6) if "v_mean_m_per_s" in rt.index else obs(rt.mdot_from_kg_per_s / 10.0, 1e6),
             "vdot": obs(rt.vdot_m3_per_s, 1e9),
             "re": obs(rt.reynolds, 1e3) if "reynolds" in rt.index else [1, 0],
             "lam": obs(rt["lambda"], 1e9) if "lambda" in rt.index else [1, 0],
             "dp": obs(rt["deltap_bar"], 1e6) if "deltap_bar" in rt.index else [1, 0]}
        # reported flows as seen from the two junctions: mdot_from leaves `from`, mdot_to (negative of it) enters `to`
        inc[int(row[fcol])].append(-float(rt.mdot_from_kg_per_s))
        inc[int(row[tcol])].append(-float(rt.mdot_to_kg_per_s))
        return o
    br = [branch_obs(*meta["branch"][k]) for k in range(2, len(s["nodes"]) + 1)]
    ch = [branch_obs(*meta["chord"][i]) for i in range(1, len(s["chords"]) + 1)]
    feeders = []
    for g in meta["eg"]:
        v = float(net.res_ext_grid.loc[g, "mdot_kg_per_s"])
        feeders.append(obs(v, 1e6))
        inc[int(net.ext_grid.loc[g, "junction"])].append(-v)
    loads = {}
    for k, rows in meta["sink"].items():
        lr = []
        for tbl, lab, want in rows:
            v = float(net["res_" + tbl].loc[lab, "mdot_kg_per_s"])
            # what the row was given (mdot * scaling) next to what it reports; sign: +1 consumes, -1 injects
            lr.append({"o": obs(v, 1e6), "want": int(round(want * 1e6)), "sign": 1 if tbl == "sink" else -1})
            inc[meta["node"][k]].append(-v if tbl == "sink" else v)
        loads[k] = lr
    nd = []
    for k in range(1, len(s["nodes"]) + 1):
        lab = meta["node"][k]
        terms = inc.get(lab, [])
        tot = sum(int(round(t * 1e6)) for t in terms) if all(not math.isnan(t) for t in terms) else None
        nd.append({"p": obs(net.res_junction.loc[lab, "p_bar"], 1e6), "loads": loads.get(k, []),
                   "balance": [0, tot] if tot is not None else [1, 0], "degree": len(terms)})
    case["obs"] = {"nodes": nd, "branches": br, "chords": ch, "feeders": feeders}
    return case


def validate(cases):
    sc = core.Scratch()
    try:
        p = sc.path("trace.ndjson")
        core.write_ndjson(p, cases)
        res = tlc.run("Trace_Ref", env={"TRACE_FILE": p}, check=True, timeout=3000)
        s = res.by_tag("SUMMARY")
        if not s or s[0]["cases"] != len(cases):
            raise tlc.TLCError("trace not consumed: %s" % s)
        return res, res.by_tag("FAIL")
    finally:
        sc.cleanup()


LABEL_SETS = {"dense": lambda n: list(range(n)), "gap": lambda n: [48, 3, 17, 51, 49, 50, 5, 90][:n],
              "switch10": lambda n: [49, 50, 51, 2, 101, 7, 60, 61][:n],
              "big": lambda n: [100001, 99999, 100000, 2000003, 2000001, 7, 150000, 120000][:n]}


def variants_for(prop, s, rnd, tier):
    """the physically irrelevant choices each property quantifies over (all judged by the same exact prediction)"""
    n = len(normalise(s)["nodes"])
    if prop == "C03":
        return [{}, {"idle_pump_first": True}]
    if prop in ("C01", "C02"):
        return [{}]
    if prop == "C06":
        out = []
        for name in ("gap", "switch10", "big"):
            labs = LABEL_SETS[name](n)
            out.append({"labels": {str(k + 1): labs[k] for k in range(n)}, "blabels": rnd.choice(["desc", "gap", "big"]),
                        "shuffle": rnd.randrange(1000)})
        return out
    if prop == "C07":
        return [{"numba": True}, {"numba": False, "opts": {"only_update_hydraulic_matrix": True}},
                {"numba": True, "opts": {"only_update_hydraulic_matrix": True, "reuse_internal_data": True}}]
    if prop == "C08":
        return [{"pn": 0.6}, {"pn": 30.0}, {"pn": 9.0, "opts": {"nonlinear_method": "automatic"}},
                {"pn": 2.0, "opts": {"nonlinear_method": "automatic"}}]
    if prop == "C09":
        return [{"split": True}, {"loads": "split"}, {"loads": "negsink"}, {"extras": True},
                {"split": True, "loads": "split", "extras": True, "blabels": "desc"}]
    raise ValueError(prop)


GEN_PUMP = dict(GEN_BIG, Kinds="<- KindsPump", MaxNodes="= 5", MaxChords="= 1")


def pump_scenarios(tier, seed):
    sh = core.spec_hash("PPRefHyd", "GenHyd")
    out = []
    for steps, num in ((2, 60), (3, 120), (4, 120)):
        n = num if tier == "quick" else num * 10
        out += core.cached("hydpump%d_%d_%d_%s" % (steps, n, seed, sh),
                           lambda: gen(dict(GEN_PUMP, MaxSteps="= %d" % steps), simulate="num=%d" % n, depth=steps + 2,
                                       seed=seed * 11 + steps)[1])
    return [r for r in out if any(n.get("kind") == "pump" for n in normalise(r["s"])["nodes"])]


def run_check(prop, text_rule, nmax_quick=450, workers=None, level="model_checking", extra_cov=None, prior_violations=0):
    t0 = time.time()
    tr, sd = core.tier(), core.seed()
    V = core.Verdicts(prop)
    rnd = random.Random(sd)
    # 1. the reference model itself: mass balance of the design, orientation / section neutrality, pressure shift (TLC, exhaustive)
    cfgname = "_hydmc_%d.cfg" % os.getpid()
    consts = dict(GEN_SMALL, MaxSteps="= 3" if tr == "thorough" else "= 2")
    with open(os.path.join(tlc.SPEC_DIR, cfgname), "w") as f:
        f.write("SPECIFICATION Spec\nCONSTANTS\n" + "".join("  %s %s\n" % kv for kv in consts.items()) +
                "  EmitOn = FALSE\nINVARIANT InvBalance\nINVARIANT InvOrientationFree\nINVARIANT InvShift\nINVARIANT InvFrictionModel\nCHECK_DEADLOCK FALSE\n")
    try:
        mc = tlc.run("GenHyd", cfg=cfgname, workers=core.nworkers(), timeout=3000, check=True)
    finally:
        os.remove(os.path.join(tlc.SPEC_DIR, cfgname))
    # 2. spec -> code
    small, big = scenarios(tr, sd, rnd)
    if tr == "quick":
        # stratified sample, so that the amount of non-trivial work does not depend on the seed: few two-junction scenarios,
        # mostly scenarios with >= 3 junctions, the three friction models in equal parts
        pool = []
        for fm in ("nikuradse", "colebrook", "swamee-jain"):
            s2 = [r for r in small if len(normalise(r["s"])["nodes"]) < 3 and r["s"].get("fm", "nikuradse") == fm]
            s3 = [r for r in small if len(normalise(r["s"])["nodes"]) >= 3 and r["s"].get("fm", "nikuradse") == fm]
            pool += rnd.sample(s2, min(len(s2), nmax_quick // 30)) + rnd.sample(s3, min(len(s3), nmax_quick // 8))
        pool += big
    else:
        pool = small + big
    jobs = []
    for i, r in enumerate(pool):
        for j, v in enumerate(variants_for(prop, r["s"], rnd, tr)):
            jobs.append({"id": "%s.%d.%d" % (prop, i, j), "s": r["s"], "variant": v, "family": prop, "flows": r["exp"]["m"]})
    if tr == "quick" and len(jobs) > nmax_quick:
        triv = [j for j in jobs if len(normalise(j["s"])["nodes"]) < 3]
        jobs = [j for j in jobs if len(normalise(j["s"])["nodes"]) >= 3]
        jobs = rnd.sample(jobs, min(len(jobs), nmax_quick - nmax_quick // 10)) + rnd.sample(triv, min(len(triv), nmax_quick // 10))
    if prop in ("C03", "C02", "C06"):                 # scenarios with designed pumps (linear characteristic): always all of them
        for i, r in enumerate(pump_scenarios(tr, sd)):
            for j, v in enumerate(variants_for(prop, r["s"], rnd, tr)):
                jobs.append({"id": "%s.p%d.%d" % (prop, i, j), "s": r["s"], "variant": v, "family": prop, "flows": r["exp"]["m"]})
    cases = core.pmap(run_case, jobs, chunksize=6, workers=workers)
    by_id = {c["id"]: c for c in cases}
    res, fails = validate(cases)
    cc = collections.Counter()
    for f in fails:
        for cl in f["clauses"]:
            cc[cl[0]] += 1
            c = by_id[f["id"]]
            V.report(cl[0], cl[1], {"s": c["s"], "variant": c["variant"], "id": c["id"], "flows": c["flows"]},
                     text="element=%s case=%s variant=%s" % (cl[2], f["id"], json.dumps(c["variant"])[:120]))
    ok = sum(1 for c in cases if c["outcome"] == "returned")
    cov = {"states": mc.distinct, "transitions": mc.generated, "traces_validated_against_impl": len(cases),
           "samples": [{"scenario": cases[0]["s"], "variant": cases[0]["variant"], "observed": cases[0]["obs"]}],
           "scenarios_exhaustive_small_space": len(small), "scenarios_simulated": len(big),
           "runs": len(cases), "runs_returned": ok, "failing_clause_counts": dict(cc), "trace_spec_states": res.distinct,
           "max_nodes": max(len(c["s"]["nodes"]) for c in cases), "with_chords": sum(1 for c in cases if c["s"]["chords"]),
           "evaluations": len(cases), "distinct_nontrivial": sum(1 for c in cases if len(c["s"]["nodes"]) >= 3),
           "rule": text_rule}
    if extra_cov:
        cov.update(extra_cov)
    rc = V.finish()
    core.write_evidence(prop, level, cov, time.time() - t0, len(V.violations) + prior_violations,
                        assumptions=["designed family: constant-property liquid (rho 1000, Re = 6400|m|), A = 0.01 m2, lambda_turb = 1/16, L = N*D; "
                                     "the barometric table is computed by the harness from the documented formula (1e-6 bar)",
                                     "tolerances: 2e-6 bar, 2e-6 kg/s; solver run with tolerances 1e-10"])
    print("%s %s: reference-model states=%d, runs=%d (returned %d), violations=%d, known=%d, %.0fs"
          % (prop, tr, mc.distinct, len(cases), ok, len(V.violations), len(V.known), time.time() - t0))
    return rc


def replay_file(prop, path):
    rec = json.load(open(path))
    c = rec["case"]
    case = run_case({"id": c["id"], "s": c["s"], "variant": c["variant"], "family": prop, "flows": c.get("flows")})
    res, fails = validate([case])
    for f in fails:
        print("FAIL", f)
    return 1 if fails else 0
