"""C16 - element creation keeps the net referentially intact, atomic and as documented."""
from . import c17


def main():
    from . import core, defaults
    V = core.Verdicts("C16")
    extra = defaults.run(V)              # documented defaults reach the tables (PPDefaults / Trace_Defaults)
    rc1 = V.finish()
    rc2 = c17.run("C16", extra_cov=extra, prior=len(V.violations))
    return 1 if (rc1 or rc2) else 0


def replay(path):
    return c17.replay(path, "C16")
