"""C16 - element creation keeps the net referentially intact, atomic and as documented."""
from . import c17


def main():
    return c17.run("C16")


def replay(path):
    return c17.replay(path, "C16")
