"""C16 - element creation keeps the net referentially intact, atomic and as documented."""
from . import c17


def main():
    from . import core, defaults
    V = core.Verdicts("C16")
    extra = defaults.run(V)              # documented defaults reach the tables (PPDefaults / Trace_Defaults)
    # standard-type library as a state machine: creation from a type = creation from its parameters, refusals atomic, rows as requested
    from . import stdtype
    extra.update(stdtype.part(V, "C16", core.tier(), core.seed(),
                              ("refused_valid", "accepted_invalid", "refusal_not_atomic", "row_differs_from_type", "type_differs_from_parameters",
                               "row_not_as_requested", "retyped_row_differs", "unknown_event")))
    rc1 = V.finish()
    rc2 = c17.run("C16", extra_cov=extra, prior=len(V.violations))
    return 1 if (rc1 or rc2) else 0


def replay(path):
    return c17.replay(path, "C16")
