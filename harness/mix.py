"""Mixing / duty scenarios with a temperature-dependent heat capacity (spec/PPRefMix.tla, GenMix.tla, Trace_Mix.tla); part of C10 and C11."""
import collections, json, math, os, random, logging, warnings
from . import core, tlc

warnings.filterwarnings("ignore")
logging.disable(logging.CRITICAL)


def fluid():
    """cp(T) = 4000 + 40 (T - 300) J/kgK, everything else constant"""
    from pandapipes.properties.fluids import Fluid, FluidPropertyConstant, FluidPropertyLinear
    f = Fluid("linear_cp_liquid", "liquid")
    f.add_property("density", FluidPropertyConstant(1000.0))
    f.add_property("viscosity", FluidPropertyConstant(1e-3))
    f.add_property("heat_capacity", FluidPropertyLinear(40.0, 4000.0 - 40.0 * 300.0))
    f.add_property("molar_mass", FluidPropertyConstant(18.0))
    f.add_property("compressibility", FluidPropertyConstant(1.0))
    f.add_property("der_compressibility", FluidPropertyConstant(0.0))
    return f


def mk(x):
    x = float(x)
    if math.isnan(x) or math.isinf(x):
        return [1, 0]
    return [0, int(round((x - 300.0) * 1000.0))]


def run_case(job):
    import pandapipes as pp
    from pandapipes.pf.pipeflow_setup import PipeflowNotConverged
    x = job["x"]
    streams = [(int(s[0]), int(s[1])) for s in x["streams"]]
    M = sum(m for m, _ in streams)
    net = pp.create_empty_network("mix", fluid=fluid())
    jm = pp.create_junction(net, 5.0, 325.0, index=40)
    feeders = []
    for i, (m, t) in enumerate(streams):
        ja = pp.create_junction(net, 5.0, 325.0, index=7 + 3 * i)
        pp.create_ext_grid(net, ja, p_bar=6.0, t_k=300.0 + t / 1000.0, type="pt")
        if i == 0:      # the first stream arrives through a plain (lossless) pipe and carries what the others leave over
            a, b = (jm, ja) if x["rev"] else (ja, jm)
            pp.create_pipe_from_parameters(net, a, b, 0.05, 100.0, k_mm=0.1, u_w_per_m2k=0.0, sections=2)
        else:
            pp.create_flow_control(net, ja, jm, controlled_mdot_kg_per_s=float(m))
        feeders.append(ja)
    jx = pp.create_junction(net, 5.0, 325.0, index=2)
    js = pp.create_junction(net, 5.0, 325.0, index=90)
    ha, hb = (jx, jm) if x["rev"] else (jm, jx)                 # with rev the exchanger, too, is declared against the flow
    pp.create_heat_exchanger(net, ha, hb, qext_w=float(x["q"]), inner_diameter_mm=100.0)
    pp.create_pipe_from_parameters(net, js, jx, 0.05, 100.0, k_mm=0.1, u_w_per_m2k=0.0)          # declared against the flow
    pp.create_sink(net, js, float(M))
    case = {"id": job["id"], "x": x, "outcome": "", "obs": {"feed": [], "tmix": [1, 0], "tout": [1, 0], "tsink": [1, 0], "msum": [1, 0]}}
    try:
        pp.pipeflow(net, mode=x["mode"], tol_p=1e-9, tol_m=1e-9, tol_res=1e-7, tol_T=1e-9, iter=200, use_numba=bool(job.get("numba", False)))
        case["outcome"] = "returned"
    except PipeflowNotConverged:
        case["outcome"] = "PipeflowNotConverged"
        return case
    except Exception as e:  # noqa
        case["outcome"] = "raised:%s" % type(e).__name__
        return case
    tj = net.res_junction.t_k
    case["obs"] = {"feed": [mk(tj.loc[j]) for j in feeders], "tmix": mk(tj.loc[jm]), "tout": mk(tj.loc[jx]), "tsink": mk(tj.loc[js]),
                   "msum": [0, int(round(abs(float(net.res_heat_exchanger.mdot_from_kg_per_s.iloc[0])) * 1e6))]}
    return case


def scenarios():
    sh = core.spec_hash("Num", "PPRefMix", "GenMix")

    def emit():
        cfg = "_mix_%d.cfg" % os.getpid()
        with open(os.path.join(tlc.SPEC_DIR, cfg), "w") as f:
            f.write("SPECIFICATION Spec\nINVARIANT Emit\nCHECK_DEADLOCK FALSE\n")
        try:
            r = tlc.run("GenMix", cfg=cfg, workers=1, timeout=3000, check=False)
        finally:
            os.remove(os.path.join(tlc.SPEC_DIR, cfg))
        return [x["x"] for x in r.by_tag("MIX")]
    return core.cached("mix" + sh, emit)


def validate(cases):
    sc = core.Scratch()
    try:
        p = sc.path("trace.ndjson")
        core.write_ndjson(p, cases)
        res = tlc.run("Trace_Mix", env={"TRACE_FILE": p}, check=True, timeout=3000)
        s = res.by_tag("SUMMARY")
        if not s or s[0]["cases"] != len(cases):
            raise tlc.TLCError("trace not consumed: %s" % s)
        return res, res.by_tag("FAIL")
    finally:
        sc.cleanup()


def part(V, prop, tr, sd, model_check=True):
    """run the mixing scenarios; report the clauses of `prop` (C10 or C11)"""
    rnd = random.Random(sd + 37)
    states = 0
    if model_check and tr == "thorough":
        states = tlc.run("GenMix", workers=core.nworkers(), timeout=3000, check=True).distinct
    xs = scenarios()
    # distinct temperatures only (equal feed temperatures say nothing about the weighting), stratified over stream counts
    xs = [x for x in xs if len({s[1] for s in x["streams"]}) >= 2]
    if tr == "quick":
        xs = rnd.sample(xs, min(len(xs), 260))
    else:
        xs = rnd.sample(xs, min(len(xs), 6000))
    jobs = [{"id": "mx%d" % i, "x": x, "numba": (i % 5 == 0)} for i, x in enumerate(xs)]
    cases = core.pmap(run_case, jobs, chunksize=8)
    res, fails = validate(cases)
    by_id = {c["id"]: c for c in cases}
    cc = collections.Counter()
    for f in fails:
        for cl in f["clauses"]:
            cc[cl[0]] += 1
            if cl[0].startswith(prop + ".") or cl[0].startswith("MIX."):
                V.report(cl[0] if cl[0].startswith(prop) else prop + "." + cl[0], cl[1], by_id[f["id"]], text="case=%s x=%s" % (f["id"], json.dumps(by_id[f["id"]]["x"])[:160]))
    return {"mixing_model_states": states, "mixing_scenarios_in_model": len(scenarios()), "mixing_runs": len(cases),
            "mixing_runs_returned": sum(1 for c in cases if c["outcome"] == "returned"), "mixing_failing_clause_counts": dict(cc)}
