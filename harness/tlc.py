"""Thin wrapper around TLC: run a module/config, collect statistics and the JSON lines the
specification prints with PrintT(ToJson(..)).  Exit status policy is decided by the callers."""
import json, os, re, shutil, subprocess, tempfile, time

SPEC_DIR = os.path.join(os.path.dirname(os.path.dirname(os.path.abspath(__file__))), "spec")
JAR = "/opt/veriftools/tla/tla2tools.jar"


class TLCError(RuntimeError):
    pass


class TLCResult:
    def __init__(self, out, wall):
        self.out = out
        self.wall = wall
        self.generated = self.distinct = 0
        m = re.findall(r"(\d+) states generated, (\d+) distinct states found", out)
        if m:
            self.generated, self.distinct = int(m[-1][0]), int(m[-1][1])
        m = re.findall(r"The depth of the complete state graph search is (\d+)", out)
        self.depth = int(m[-1]) if m else 0
        self.records = []
        for line in out.splitlines():
            line = line.strip()
            if line.startswith('"{') or line.startswith('"['):
                try:
                    self.records.append(json.loads(json.loads(line)))
                except Exception:
                    pass
        self.ok = ("Model checking completed. No error has been found." in out) or \
                  ("Finished in" in out and "Error:" not in out)
        self.invariant_violated = re.findall(r"Error: Invariant (\S+) is violated", out)
        self.property_violated = re.findall(r"Error: Action property (\S+) is violated", out)
        self.coverage = {}
        for m in re.finditer(r"<(\w+) line \d+, col \d+ to line \d+, col \d+ of module (\w+)>: (\d+):(\d+)", out):
            self.coverage[m.group(1)] = (int(m.group(3)), int(m.group(4)))

    def by_tag(self, tag):
        return [r for r in self.records if isinstance(r, dict) and r.get("vp") == tag]


def run(module, cfg=None, env=None, workers=1, args=(), timeout=3600, simulate=None, depth=None,
        seed=None, coverage=False, check=True, java_opts=None, cwd=None):
    """Run TLC on spec/<module>.tla with spec/<cfg> (default <module>.cfg)."""
    cwd = cwd or SPEC_DIR
    cfg = cfg or (module + ".cfg")
    meta = tempfile.mkdtemp(prefix="tlcmeta_")
    cmd = ["java", "-XX:+UseParallelGC", "-Xmx8g"]
    if java_opts:
        cmd += list(java_opts)
    cmd += ["-cp", JAR + ":/opt/veriftools/tla/CommunityModules-deps.jar", "tlc2.TLC"]
    cmd = ["tlc"]  # wrapper on PATH already carries the CommunityModules classpath
    cmd += ["-workers", str(workers), "-metadir", meta, "-noGenerateSpecTE", "-config", cfg]
    if simulate:
        cmd += ["-simulate", simulate]
    if depth:
        cmd += ["-depth", str(depth)]
    if seed is not None:
        cmd += ["-seed", str(seed)]
    if coverage:
        cmd += ["-coverage", "1"]
    cmd += list(args) + [module + ".tla"]
    e = dict(os.environ)
    if java_opts:
        e["JAVA_TOOL_OPTIONS"] = " ".join(java_opts)
    if env:
        e.update({k: str(v) for k, v in env.items()})
    t0 = time.time()
    try:
        p = subprocess.run(cmd, cwd=cwd, env=e, stdout=subprocess.PIPE, stderr=subprocess.STDOUT,
                           timeout=timeout, text=True)
        out = p.stdout
    except subprocess.TimeoutExpired as ex:
        subprocess.run(["pkill", "-f", meta], check=False)
        out = (ex.stdout or b"").decode() if isinstance(ex.stdout, bytes) else (ex.stdout or "")
        shutil.rmtree(meta, ignore_errors=True)
        if simulate:
            return TLCResult(out, time.time() - t0)
        raise TLCError("TLC timeout after %ss: %s" % (timeout, " ".join(cmd)))
    finally:
        shutil.rmtree(meta, ignore_errors=True)
    res = TLCResult(out, time.time() - t0)
    res.returncode = p.returncode
    if check and not res.ok:
        raise TLCError("TLC failed (%s %s):\n%s" % (module, cfg, out[-6000:]))
    return res
