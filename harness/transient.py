"""Transient (multi time step, transient=True) heat calculations driven through run_timeseries.

Shared by C01 (the flows reported for every time step balance, Trace_PF) and C13 (the hydraulic results of every time step
equal a stand-alone calculation with that step's inputs; a step depends on the inputs up to that step only: the series over
a prefix of the profile reproduces the first steps of the full series; Trace_TS).

The nets use the designed constant-property liquid, so the hydraulic solution does not depend on the temperatures that evolve
over the steps: the stationary stand-alone calculation is the exact reference for pressures and flows of every step."""
import hashlib, json, logging, warnings
import numpy as np
from . import core, netio, designed as D

warnings.filterwarnings("ignore")
logging.disable(logging.CRITICAL)
INPUTS = {"A": (1.0, 1.0, True), "B": (2.0, 0.5, True), "X": (1.0, 1.0, False)}     # sink factor, source factor, ext_grid in service
HYD = [("res_junction", "p_bar"), ("res_pipe", "mdot_from_kg_per_s"), ("res_pipe", "mdot_to_kg_per_s"), ("res_sink", "mdot_kg_per_s"),
       ("res_source", "mdot_kg_per_s"), ("res_ext_grid", "mdot_kg_per_s")]
TH = [("res_junction", "t_k"), ("res_pipe", "t_to_k"), ("res_pipe", "t_from_k")]


def net_line(fluid=None):
    """open district-heating line with a mesh: ext_grid -> pipes (heat losses, sections) -> two sinks and a source"""
    import pandapipes as pp
    net = pp.create_empty_network(fluid=fluid if fluid is not None else D.fluid())
    j = [pp.create_junction(net, 6.0, 340.0, index=i) for i in (4, 0, 7, 2, 9)]
    pp.create_ext_grid(net, j[0], p_bar=6.0, t_k=365.0, type="pt")
    pp.create_pipe_from_parameters(net, j[0], j[1], 0.5, 100.0, k_mm=0.1, u_w_per_m2k=5.0, sections=3)
    pp.create_pipe_from_parameters(net, j[1], j[2], 0.4, 100.0, k_mm=0.1, u_w_per_m2k=5.0, sections=2)
    pp.create_pipe_from_parameters(net, j[1], j[3], 0.3, 80.0, k_mm=0.1, u_w_per_m2k=5.0)
    pp.create_pipe_from_parameters(net, j[3], j[4], 0.2, 80.0, k_mm=0.1, u_w_per_m2k=5.0)
    pp.create_pipe_from_parameters(net, j[2], j[4], 0.25, 80.0, k_mm=0.1, u_w_per_m2k=5.0, sections=2)
    pp.create_sink(net, j[2], 1.5)
    pp.create_sink(net, j[4], 0.7, scaling=1.5)
    pp.create_source(net, j[3], 0.2)
    return net


def net_tree(fluid=None):
    import pandapipes as pp
    net = pp.create_empty_network(fluid=fluid if fluid is not None else D.fluid())
    j = [pp.create_junction(net, 5.0, 330.0) for _ in range(4)]
    pp.create_ext_grid(net, j[0], p_bar=5.0, t_k=355.0, type="pt")
    pp.create_pipe_from_parameters(net, j[0], j[1], 0.6, 90.0, k_mm=0.1, u_w_per_m2k=8.0, sections=4)
    pp.create_pipe_from_parameters(net, j[2], j[1], 0.3, 70.0, k_mm=0.1, u_w_per_m2k=8.0, sections=2)      # declared against the flow
    pp.create_valve(net, j[2], j[3], "ju", 70.0, loss_coefficient=1.0)
    pp.create_sink(net, j[3], 0.9)
    pp.create_sink(net, j[1], 0.4)
    pp.create_mass_storage(net, j[2], 0.1)
    return net


NETS = {"line": net_line, "tree": net_tree}


def _dig(arrs, decimals=9):
    h = hashlib.sha1()
    allnan = True
    for a in arrs:
        a = np.asarray(a, dtype=float)
        if not np.all(np.isnan(a)):
            allnan = False
        h.update((np.round(a, decimals) + 0.0).tobytes())
    return "nan" if allnan else h.hexdigest()[:12]


def apply_inputs(net, base, x):
    f_sink, f_src, eg = INPUTS[x]
    net.sink["mdot_kg_per_s"] = base["sink"] * f_sink
    if "source" in net and len(net.source):
        net.source["mdot_kg_per_s"] = base["source"] * f_src
    net.ext_grid.loc[net.ext_grid.index[0], "in_service"] = eg


def run_series(netname, profile, cod, dt=60.0, mode="sequential", snapshots=False, rows=None):
    """one transient run_timeseries over `profile`; returns per step the digests of the hydraulic and thermal results the net held
    when the output writer was called (and the abstract projection of the whole net if snapshots)"""
    import pandas as pd
    from pandapower.control import ConstControl
    from pandapower.timeseries import DFData, OutputWriter
    from pandapower.timeseries.run_time_series import _call_output_writer
    from pandapipes.timeseries import run_timeseries
    net = NETS[netname]()
    base = {"sink": net.sink.mdot_kg_per_s.values.copy(), "source": net.source.mdot_kg_per_s.values.copy() if "source" in net else None}
    n = len(profile)
    df = pd.DataFrame({"s%d" % i: [base["sink"][i] * INPUTS[p][0] for p in profile] for i in range(len(base["sink"]))})
    ConstControl(net, "sink", "mdot_kg_per_s", element_index=list(net.sink.index), profile_name=list(df.columns), data_source=DFData(df))
    if base["source"] is not None and len(base["source"]):
        d2 = pd.DataFrame({"q%d" % i: [base["source"][i] * INPUTS[p][1] for p in profile] for i in range(len(base["source"]))})
        ConstControl(net, "source", "mdot_kg_per_s", element_index=list(net.source.index), profile_name=list(d2.columns), data_source=DFData(d2))
    d3 = pd.DataFrame({"eg": [INPUTS[p][2] for p in profile]})
    ConstControl(net, "ext_grid", "in_service", element_index=[net.ext_grid.index[0]], profile_name=["eg"], data_source=DFData(d3))
    steps = [r - 1 for r in rows] if rows else list(range(n))          # the rows of the data source that are run, in this order
    OutputWriter(net, steps, output_path=None, log_variables=[("res_junction", "p_bar")])
    seen = []

    def writer(net_, time_step, pf_converged, ctrl_converged, ts_variables):
        _call_output_writer(net_, time_step, pf_converged, ctrl_converged, ts_variables)
        rec = {"t": int(time_step), "pf_converged": bool(pf_converged),
               "hyd": _dig([net_[t][c].values for t, c in HYD if t in net_ and c in net_[t].columns]),
               "th": _dig([net_[t][c].values for t, c in TH if t in net_ and c in net_[t].columns], 6)}
        if snapshots:
            rec["net"] = netio.project(net_)
            rec["converged"] = bool(net_.get("converged", False))
        seen.append(rec)
    raised, exc = False, ""
    try:
        run_timeseries(net, time_steps=steps, continue_on_divergence=cod, verbose=False, mode=mode, transient=True, dt=dt,
                       use_numba=False, iter=60, tol_p=1e-9, tol_m=1e-9, tol_res=1e-8, output_writer_fct=writer)
    except Exception as e:  # noqa
        raised, exc = True, type(e).__name__
    return seen, raised, exc, base


def standalone(netname, base, x):
    """hydraulic digest of a stationary stand-alone calculation on a fresh net carrying the inputs x"""
    import pandapipes as pp
    net = NETS[netname]()
    apply_inputs(net, base, x)
    try:
        pp.pipeflow(net, mode="hydraulics", use_numba=False, iter=60, tol_p=1e-9, tol_m=1e-9, tol_res=1e-8)
    except Exception:  # noqa
        return "nan"
    return _dig([net[t][c].values for t, c in HYD if t in net and c in net[t].columns])


def run_case(job):
    """job: {id, net, profile, cod} -> (Trace_TS case, [Trace_PF cases of the steps])"""
    full, cod = job["profile"], job["cod"]
    rows = [int(s) for s in (job.get("steps") or range(1, len(full) + 1))]
    prof = [full[r - 1] for r in rows]                       # the inputs along the run
    seen, raised, exc, base = run_series(job["net"], full, cod, snapshots=True, rows=rows)
    by_t = {r["t"]: r for r in seen}
    # the same series without its last step: must reproduce the first steps (a step depends on the past only)
    pre = {}
    if len(rows) >= 2 and not raised:
        s2, r2, _, _ = run_series(job["net"], full, cod, rows=rows[:-1])
        if not r2:
            pre = {r["t"]: r for r in s2}
    steps, pfcases = [], []
    for pos, x in enumerate(prof):
        t = rows[pos] - 1
        r = by_t.get(t)
        sa = standalone(job["net"], base, x)
        steps.append({"logged": r["hyd"] if r else "nan", "standalone": sa, "flagged": bool(r is not None and not r["pf_converged"]),
                      "th": r["th"] if r else "nan", "pre_hyd": pre[t]["hyd"] if t in pre else "none", "pre_th": pre[t]["th"] if t in pre else "none"})
        if r is not None and r["pf_converged"] and x != "X":
            pfcases.append({"id": "%s.t%d" % (job["id"], t), "outcome": "returned", "oclass": "returned", "check": ["C01"], "mode": "sequential",
                            "net": r["net"], "converged": r["converged"], "ambient": netio.limbs(293.15, netio.TSCALE)})
    ts = {"id": job["id"], "profile": prof, "rows": rows, "full_profile": full, "cod": cod, "raised": raised, "exc": exc, "steps": steps, "net": job["net"],
          "mode": "transient", "transient": True}
    return ts, pfcases


def jobs_for(tier, seed, profiles):
    """profiles: list of {profile, cod} (from MC_TS); transient series are run for the feasible profiles and, with
    continue_on_divergence, for those with an infeasible step"""
    import random
    rnd = random.Random(seed + 31)
    jobs = []
    for i, b in enumerate(profiles):
        eff = [b["profile"][s - 1] for s in b["steps"]] if b.get("steps") else b["profile"]
        if "X" in eff and not b["cod"]:
            continue
        for net in NETS:
            jobs.append({"id": "tr%d.%s" % (i, net), "net": net, "profile": b["profile"], "steps": b.get("steps"), "cod": b["cod"]})
    cap = 40 if tier == "quick" else 2000
    if len(jobs) > cap:
        long_ = [j for j in jobs if len(j.get("steps") or j["profile"]) >= 3]
        short = [j for j in jobs if len(j.get("steps") or j["profile"]) < 3]
        jobs = rnd.sample(long_, min(len(long_), cap - cap // 4)) + rnd.sample(short, min(len(short), cap // 4))
    return jobs
