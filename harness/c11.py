"""C11 - heat exchangers, consumers and circulation pumps report consistent heat duties (designed loops, GenLoop)."""
import collections, json, math, os, random, time, logging, warnings
from . import core, tlc, designed as D

warnings.filterwarnings("ignore")
logging.disable(logging.CRITICAL)
FAC = {1: 1.0, 2: 0.5, 3: 0.75}
AMB = {1: 283.0, 2: 303.0}
CP = 4000.0


def to(x, scale):
    x = float(x)
    if math.isnan(x) or math.isinf(x) or abs(x * scale) > 2 ** 31 - 2:
        return [1, 0]
    return [0, int(round(x * scale))]


def run_case(job):
    import pandapipes as pp
    from pandapipes.pf.pipeflow_setup import PipeflowNotConverged
    l = job["l"]
    var = job.get("variant") or {}
    mode = var.get("mode", "bidirectional")
    net = pp.create_empty_network("loop", fluid=D.fluid())
    tn = var.get("tn", 340.0)
    labs = var.get("labels", [0, 1, 2, 3])
    # a pump of type "p" (created without a flow temperature) feeds with the start temperature of its flow junction: that junction then carries the
    # designed feed temperature of 360 K, all others the start value tn
    jF, jS, jR, jB = [pp.create_junction(net, 5.0, 360.0 if (k == 0 and var.get("ptype") == "p") else tn, index=i) for k, i in enumerate(labs)]
    Mtot = sum(c["m"] for c in l["cons"])
    p2 = int(l.get("p2", 0))
    M = Mtot - p2                 # flow through the main pump and the two pipes
    N = 800

    def alpha(fd):
        f = FAC[fd]
        return 0.0 if f == 1.0 else -math.log(f) * CP * M / (math.pi * D.DSTAR * N * D.DSTAR)
    pkw = dict(length_km=N * D.DSTAR / 1000.0, inner_diameter_mm=D.DSTAR * 1000.0, k_mm=D.K_NIKURADSE * 1000.0, text_k=AMB[l["te"]])
    ts = AMB[l["te"]] + (360.0 - AMB[l["te"]]) * FAC[l["fs"]]            # inputs that depend on the supply temperature (treturn, qext of QE_TR)
    ts = (M * ts + p2 * 345.0) / Mtot
    if l["pump"] == "pressure":
        pump = ("circ_pump_pressure", pp.create_circ_pump_const_pressure(net, jB, jF, p_flow_bar=6.0, plift_bar=2.0,
                                                                        t_flow_k=None if var.get("ptype") == "p" else 360.0, type=var.get("ptype", "pt")))
    else:
        pump = ("circ_pump_mass", pp.create_circ_pump_const_mass_flow(net, jB, jF, p_flow_bar=6.0, mdot_flow_kg_per_s=float(M),
                                                                    t_flow_k=None if var.get("ptype") == "p" else 360.0, type=var.get("ptype", "pt")))
    pp.create_pipe_from_parameters(net, jF, jS, u_w_per_m2k=alpha(l["fs"]), sections=var.get("sec", 2), **pkw)
    pump2 = None
    if p2:          # second producer: fixes only its feed temperature
        pump2 = pp.create_circ_pump_const_mass_flow(net, jR, jS, p_flow_bar=None, mdot_flow_kg_per_s=float(p2), t_flow_k=345.0, type="t")
    cons = []
    for c in l["cons"]:
        m, dT = float(c["m"]), float(c["dT"])
        q = CP * m * dT
        a, b = (jR, jS) if False else (jS, jR)
        if c["mode"] == "HX":
            cons.append(("heat_exchanger", pp.create_heat_exchanger(net, a, b, qext_w=q, inner_diameter_mm=D.DSTAR * 1000.0, loss_coefficient=40.0 / m ** 2)))
        else:
            kw = {"MF_DT": dict(controlled_mdot_kg_per_s=m, deltat_k=dT), "MF_TR": dict(controlled_mdot_kg_per_s=m, treturn_k=ts - dT),
                  "QE_MF": dict(qext_w=q, controlled_mdot_kg_per_s=m), "QE_DT": dict(qext_w=q, deltat_k=dT),
                  "QE_TR": dict(qext_w=q, treturn_k=ts - dT)}[c["mode"]]
            cons.append(("heat_consumer", pp.create_heat_consumer(net, a, b, **kw)))
    pp.create_pipe_from_parameters(net, jR, jB, u_w_per_m2k=alpha(l["fr"]), sections=1, **pkw)
    opts = {"use_numba": bool(var.get("numba", False)), "tol_p": 1e-10, "tol_m": 1e-10, "tol_res": 1e-7, "tol_T": 1e-9, "iter": 200,
            "mode": mode}
    try:
        pp.pipeflow(net, **opts)
        outcome = "returned"
    except PipeflowNotConverged:
        outcome = "PipeflowNotConverged"
    except Exception as e:  # noqa
        outcome = "raised:%s" % type(e).__name__
        if isinstance(e, UserWarning) and "direction change in circulation pump" in str(e):
            outcome = "raised:UserWarning:circ_pump_direction"      # the library's signal for a reverse-flow state (finding F20 under C05)
    case = {"id": job["id"], "l": l, "variant": var, "mode": mode, "outcome": outcome, "cons": [], "pump": {}, "ts": [1, 0],
            "pump2": {"q": [1, 0], "tout": [1, 0]}}
    if outcome != "returned":
        return case
    for tbl, lab in cons:
        r = net["res_" + tbl].loc[lab]
        case["cons"].append({"m": to(r.mdot_from_kg_per_s, 1e6),
                             "q": to(r.qext_w if "qext_w" in r.index else net[tbl].loc[lab, "qext_w"], 1.0),
                             "dt": to(r.deltat_k if "deltat_k" in r.index else (r.t_from_k - r.t_outlet_k), 1e3),
                             "tout": to(r.t_outlet_k, 1e3), "tfrom": to(r.t_from_k, 1e3)})
    r = net["res_" + pump[0]].loc[pump[1]]
    case["pump"] = {"q": to(r.qext_w, 1.0), "tret": to(r.t_from_k, 1e3), "tflow": to(net.res_junction.loc[jF, "t_k"], 1e3),
                    "m": to(r.mdot_from_kg_per_s, 1e6)}
    case["ts"] = to(net.res_junction.loc[jS, "t_k"], 1e3)
    if pump2 is not None:
        r2 = net.res_circ_pump_mass.loc[pump2]
        case["pump2"] = {"q": to(r2.qext_w, 1.0), "tout": to(r2.t_outlet_k, 1e3)}
    else:
        case["pump2"] = {"q": [1, 0], "tout": [1, 0]}
    return case


def validate(cases):
    sc = core.Scratch()
    try:
        p = sc.path("trace.ndjson")
        core.write_ndjson(p, cases)
        res = tlc.run("Trace_Loop", env={"TRACE_FILE": p}, check=True, timeout=3000)
        s = res.by_tag("SUMMARY")
        if not s or s[0]["cases"] != len(cases):
            raise tlc.TLCError("trace not consumed: %s" % s)
        return res, res.by_tag("FAIL")
    finally:
        sc.cleanup()


def loops():
    sh = core.spec_hash("Rat", "PPRefLoop", "GenLoop")

    def emit():
        cfg = "_loop_%d.cfg" % os.getpid()
        with open(os.path.join(tlc.SPEC_DIR, cfg), "w") as f:
            f.write("SPECIFICATION Spec\nINVARIANT Emit\nCHECK_DEADLOCK FALSE\n")
        try:
            r = tlc.run("GenLoop", cfg=cfg, workers=1, timeout=3000, check=False)
        finally:
            os.remove(os.path.join(tlc.SPEC_DIR, cfg))
        seen, out = set(), []
        for x in r.by_tag("LOOP"):
            k = json.dumps(x["l"], sort_keys=True)
            if k not in seen:
                seen.add(k)
                out.append(x["l"])
        return out
    return core.cached("loops" + sh, emit)


def run(prop, clause_prefixes, nq=500, V=None, evidence=True, extra=None):
    t0 = time.time()
    tr, sd = core.tier(), core.seed()
    V = V or core.Verdicts(prop)
    rnd = random.Random(sd)
    mc = tlc.run("GenLoop", workers=core.nworkers(), timeout=3000, check=True)
    ls = loops()
    jobs = []
    for i, l in enumerate(ls):
        for j, v in enumerate([{"mode": "bidirectional"}, {"mode": "sequential"}, {"mode": "bidirectional", "tn": 300.0, "labels": [7, 3, 12, 5], "sec": 3},
                               {"mode": "bidirectional", "ptype": "t" if l["pump"] == "mass" else "pt", "tn": 355.0},
                               {"mode": "sequential" if i % 2 else "bidirectional", "ptype": "p", "tn": 335.0, "labels": [4, 9, 1, 6]}]):
            jobs.append({"id": "%s.%d.%d" % (prop, i, j), "l": l, "variant": v})
    if tr == "quick":
        jobs = rnd.sample(jobs, min(len(jobs), nq))
    cases = core.pmap(run_case, jobs, chunksize=6)
    by_id = {c["id"]: c for c in cases}
    res, fails = validate(cases)
    cc, other = collections.Counter(), collections.Counter()
    for f in fails:
        for cl in f["clauses"]:
            if not any(cl[0].startswith(p) for p in clause_prefixes):
                other[cl[0]] += 1
                continue
            cc[cl[0]] += 1
            V.report(cl[0], "%s|%s" % (cl[1], cl[2]), by_id[f["id"]], text="case=%s variant=%s" % (f["id"], json.dumps(by_id[f["id"]]["variant"])))
    ok = sum(1 for c in cases if c["outcome"] == "returned")
    cov = {"states": mc.distinct, "transitions": mc.generated, "traces_validated_against_impl": len(cases),
           "samples": [cases[0]], "loops_in_model": len(ls), "runs": len(cases), "runs_returned": ok,
           "modes": dict(collections.Counter(c["mode"] for c in cases)),
           "consumer_modes": dict(collections.Counter(x["mode"] for c in cases for x in c["l"]["cons"])),
           "failing_clause_counts": dict(cc), "clauses_of_other_property_failing": dict(other), "trace_spec_states": res.distinct,
           "evaluations": len(cases), "distinct_nontrivial": sum(1 for c in cases if len(c["l"]["cons"]) >= 2),
           "rule": "all loops of GenLoop (1-2 consumers x 6 kinds x flows x drops x decay factors x ambient x pump kind), each in bidirectional and "
                   "sequential mode and with other start temperatures / labels / sections; non-trivial = two consumers"}
    if extra:
        cov.update(extra)
    if not evidence:
        return {"loop_runs": len(cases), "loop_runs_returned": ok, "loop_failing_clauses": dict(cc),
                "loops_with_second_producer": sum(1 for c in cases if c["l"].get("p2"))}
    rc = V.finish()
    core.write_evidence(prop, "model_checking", cov, time.time() - t0, len(V.violations),
                        assumptions=["constant heat capacity 4000 J/kgK (designed fluid): the 'up to the heat-capacity discretisation' term of the pump balance is zero",
                                     "tolerances 3e-3 K, 2 W + 1e-5 relative, 5e-6 kg/s"])
    print("%s %s: loop-model states=%d, runs=%d (returned %d), violations=%d, known=%d, %.0fs"
          % (prop, tr, mc.distinct, len(cases), ok, len(V.violations), len(V.known), time.time() - t0))
    return rc


def main():
    # heat-exchanger duties with a temperature-dependent heat capacity (PPRefMix / Trace_Mix): m (h(T_in) - h(T_out)) = q
    from . import mix
    V = core.Verdicts("C11")
    extra = mix.part(V, "C11", core.tier(), core.seed(), model_check=False)
    return run("C11", ("C11.",), V=V, extra=extra)


def replay(path):
    rec = json.load(open(path))
    c = rec["case"]
    if "x" in c:
        from . import mix
        case = mix.run_case({"id": c["id"], "x": c["x"]})
        res, fails = mix.validate([case])
        for f in fails:
            print("FAIL", f)
        return 1 if any(cl[0].startswith("C11.") or cl[0].startswith("MIX.") for f in fails for cl in f["clauses"]) else 0
    case = run_case({"id": c["id"], "l": c["l"], "variant": c["variant"]})
    res, fails = validate([case])
    for f in fails:
        print("FAIL", f)
    return 1 if any(cl[0].startswith("C11.") for f in fails for cl in f["clauses"]) else 0
