"""C14 - option precedence: call > user options > defaults."""
import json, os, time, random, copy, collections, hashlib
from . import core, tlc

ITER_VALS = {"d": 10, "a": 3, "b": 7}


def value_maps():
    """abstract value ids -> concrete values, per key.  'd' is read from the documented defaults
    pinned in the specification's source of truth (the baseline default dictionary)."""
    D = {"friction_model": "nikuradse", "tol_p": 1e-5, "tol_m": 1e-5, "tol_T": 1e-3, "tol_res": 1e-3,
         "max_iter_hyd": 10, "max_iter_therm": 10, "max_iter_bidirect": 10, "error_flag": False,
         "alpha": 1, "nonlinear_method": "constant", "mode": "hydraulics",
         "ambient_temperature": 293.15, "check_connectivity": True, "max_iter_colebrook": 10,
         "only_update_hydraulic_matrix": False, "reuse_internal_data": False, "use_numba": True,
         "quit_on_inconsistency_connectivity": False, "calc_compression_power": True,
         "transient": False, "dt": None, "tolerance_colebrook": 1e-4}
    M = {}
    for k, d in D.items():
        if isinstance(d, bool):
            M[k] = {"d": d, "a": (not d)}
        elif k.startswith("max_iter_") and k != "max_iter_colebrook":
            M[k] = dict(ITER_VALS)
        elif isinstance(d, int):
            M[k] = {"d": d, "a": d + 3, "b": d + 7}
        elif isinstance(d, float):
            M[k] = {"d": d, "a": d * 0.5, "b": d * 2.0}
        elif d is None:
            M[k] = {"d": None, "a": 60, "b": 1}
    M["friction_model"] = {"d": "nikuradse", "a": "colebrook", "b": "swamee-jain"}
    M["nonlinear_method"] = {"d": "constant", "a": "automatic"}
    M["mode"] = {"d": "hydraulics", "a": "all", "b": "sequential"}
    M["alpha"] = {"d": 1, "a": 0.5, "b": 0.1}
    M["iter"] = dict(ITER_VALS)
    M["unknown_key"] = {"d": "x0", "a": "x1", "b": "x2"}
    M["interactive_plotting"] = {"d": False, "a": True, "b": "yes"}
    M["t_start"] = {"d": 0, "a": 1, "b": 2}
    return D, M


def to_id(M, k, v):
    if k not in M:
        return "?unmapped"
    for i, c in M[k].items():
        if type(c) is type(v) and c == v:
            return i
        if c is None and v is None:
            return i
    return "?%r" % (v,)


def _digest(d):
    return hashlib.sha1(repr(sorted((k, repr(v)) for k, v in d.items())).encode()).hexdigest()[:12]


_NET = {}


def _tiny_net():
    import pandapipes as pp
    if "net" not in _NET:
        net = pp.create_empty_network(fluid="water", add_stdtypes=False)
        j = pp.create_junction(net, 5, 300)
        pp.create_ext_grid(net, j, 5, 300)
        _NET["net"] = net
    return _NET["net"]


def replay_hist(job):
    """perform a history of reset/update/call on a real net; log abstract projections"""
    import importlib, logging
    logging.disable(logging.CRITICAL)
    ps = importlib.import_module("pandapipes.pf.pipeflow_setup")
    D, M = value_maps()
    net = _tiny_net()
    net["user_pf_options"] = {}
    had = getattr(ps, "numba_installed", None)
    case = {"id": job["id"], "numba": job["numba"], "defdig0": _digest(ps.default_options), "events": []}
    try:
        if not job["numba"]:
            if had is None:
                return {"id": job["id"], "skip": "cannot simulate missing numba"}
            ps.numba_installed = False
        for ev in job["hist"]:
            akv = ev["kv"] if isinstance(ev["kv"], dict) else {}     # ToJson prints an empty layer as []
            kv = {k: M[k][i] for k, i in akv.items()}
            rec = {"op": ev["op"], "kv": akv}
            try:
                if ev["op"] == "reset":
                    ps.set_user_pf_options(net, reset=True, **kv)
                elif ev["op"] == "update":
                    ps.set_user_pf_options(net, **kv)
                else:
                    ps.init_options(net, **copy.deepcopy(kv))
                    opts = dict(net["_options"])
                    opts.pop("fluid", None)
                    rec["inforce"] = {k: to_id(M, k, v) for k, v in opts.items()}
                rec["raised"] = ""
            except Exception as e:  # noqa
                rec["raised"] = type(e).__name__
                if ev["op"] == "call":
                    rec["inforce"] = {"?raised": type(e).__name__}
            u = {k: v for k, v in net["user_pf_options"].items() if k != "hyd_flag"}
            rec["user"] = {k: to_id(M, k, v) for k, v in u.items()}
            rec["defdig"] = _digest(ps.default_options)
            case["events"].append(rec)
    finally:
        if had is not None:
            ps.numba_installed = had
    return case


def effect_jobs():
    """observable effects of the resolved options on a real calculation (iteration budget,
    friction model): layered settings -> expected id of the value in force"""
    return []


def gen(consts, simulate=None, depth=None, seed=0, timeout=900):
    cfgname = "_opt_%d.cfg" % os.getpid()
    path = os.path.join(tlc.SPEC_DIR, cfgname)
    with open(path, "w") as f:
        f.write("SPECIFICATION Spec\nCONSTANTS\n  DefaultKeys <- AllDefaultKeys\n")
        for k, v in consts.items():
            f.write("  %s %s\n" % (k, v))
        f.write("  EmitOn = TRUE\nVIEW View\n%sCHECK_DEADLOCK FALSE\n" % ("" if simulate else "INVARIANT Emit\n"))
    try:
        r = tlc.run("MC_Options", cfg=cfgname, workers=1, simulate=simulate, depth=depth, seed=seed,
                    timeout=timeout, check=False)
    finally:
        os.remove(path)
    return r, r.by_tag("OPT")


def validate(cases):
    sc = core.Scratch()
    try:
        p = sc.path("trace.ndjson")
        core.write_ndjson(p, cases)
        res = tlc.run("Trace_Options", env={"TRACE_FILE": p}, check=True, timeout=3000)
        s = res.by_tag("SUMMARY")
        if not s or s[0]["cases"] != len(cases):
            raise tlc.TLCError("trace not consumed: %s" % s)
        return res, res.by_tag("FAIL")
    finally:
        sc.cleanup()


def main():
    t0 = time.time()
    tr, sd = core.tier(), core.seed()
    V = core.Verdicts("C14")
    # 1. exhaustive model checking of the resolution design (all groups, both numba cases, 2 ops)
    mc = tlc.run("MC_Options", workers=core.nworkers(), timeout=3000, check=True)
    # 2. spec -> code: every distinct state of the 2-op machine (exhaustive) ...
    sh = core.spec_hash("PPOptions", "MC_Options")
    h1 = core.cached("c14a" + sh, lambda: gen({"NumbaChoices": "= {TRUE}", "Groups": "<- GroupsAll", "MaxOps": "= 2", "MaxLayerKeys": "= 4"})[1])
    h1b = core.cached("c14b" + sh, lambda: gen({"NumbaChoices": "= {FALSE}", "Groups": "<- GroupsCoupl", "MaxOps": "= 2", "MaxLayerKeys": "= 4"})[1])
    n_exh = len(h1) + len(h1b)
    # ... plus longer seeded random histories (stale-state bugs need call; set; call)
    nsim = 200 if tr == "quick" else 5000
    r2, h2 = gen({"NumbaChoices": "= {TRUE, FALSE}", "Groups": "<- GroupsSim", "MaxOps": "= 6", "MaxLayerKeys": "= 2"},
                 simulate="num=%d" % nsim, depth=8, seed=77 + sd, timeout=3000)
    rnd = random.Random(sd)
    h1 = h1 + h1b
    if tr == "quick":
        h1 = rnd.sample(h1, min(len(h1), 8000))
    seen, jobs = set(), []
    for i, h in enumerate(h1 + h2):
        if not h["hist"]:
            continue
        key = json.dumps(h, sort_keys=True)
        if key in seen:
            continue
        seen.add(key)
        jobs.append({"id": "h%d" % i, "numba": h["numba"], "hist": h["hist"]})
    t_gen = time.time() - t0
    cases = core.pmap(replay_hist, jobs, chunksize=200, workers=4)
    t_rep = time.time() - t0
    skipped = [c for c in cases if "skip" in c]
    cases = [c for c in cases if "skip" not in c]
    by_id = {c["id"]: c for c in cases}
    res, fails = validate(cases)
    cc = collections.Counter()
    for f in fails:
        for cl in f["clauses"]:
            cc[cl[0]] += 1
            V.report(cl[0], cl[1], by_id[f["id"]], text="event=%s case=%s" % (f["ev"], f["id"]))
    ncalls = sum(1 for c in cases for e in c["events"] if e["op"] == "call")
    multi = sum(1 for c in cases if sum(1 for e in c["events"] if e["op"] == "call") >= 2)
    exhaustive2 = len(h1)
    cov = {"states": mc.distinct, "transitions": mc.generated, "traces_validated_against_impl": len(cases),
           "samples": [cases[0], cases[len(cases) // 2], cases[-1]],
           "exhaustive": False,
           "histories_exhaustive_2ops_total": n_exh, "histories_exhaustive_2ops_replayed": len(h1), "histories_simulated": len(h2),
           "call_events": ncalls, "histories_with_two_or_more_calls": multi,
           "trace_spec_states": res.distinct, "skipped": len(skipped), "failing_clause_counts": dict(cc),
           "evaluations": len(cases), "distinct_nontrivial": multi,
           "rule": "distinct op histories emitted by TLC (BFS: all reachable <user,in-force> states of the 2-op machine for "
                   "every key group; simulation: 6-op histories); non-trivial = at least two calls in one history"}
    rc = V.finish()
    core.write_evidence("C14", "model_checking", cov, time.time() - t0, len(V.violations),
                        assumptions=["documented defaults = default_options of the baseline commit (pinned in harness/c14.value_maps and spec AllDefaultKeys)",
                                     "missing numba is simulated by clearing pipeflow_setup.numba_installed"])
    print("timing: gen %.0fs replay %.0fs total %.0fs" % (t_gen, t_rep - t_gen, time.time() - t0))
    print("C14 %s: model states=%d, histories replayed=%d, call events=%d, violations=%d, %.0fs"
          % (tr, mc.distinct, len(cases), ncalls, len(V.violations), time.time() - t0))
    return rc


def replay(path):
    rec = json.load(open(path))
    c = rec["case"]
    case = replay_hist({"id": c["id"], "numba": c["numba"],
                        "hist": [{"op": e["op"], "kv": e["kv"]} for e in c["events"]]})
    res, fails = validate([case])
    for f in fails:
        print("FAIL", f)
    return 1 if fails else 0
