"""Shared plumbing of the checks: tiers/seeds, parallel execution of implementation runs,
trace files, findings matching, evidence, exit codes."""
import json, os, sys, time, hashlib, traceback, tempfile, shutil
from concurrent.futures import ProcessPoolExecutor

ROOT = os.path.dirname(os.path.dirname(os.path.abspath(__file__)))
# (the two directories can be redirected when a check is run against a scratch copy of the repository, e.g. a seeded change)
EVID = os.environ.get("VERIF_EVID_DIR") or os.path.join(ROOT, "evidence")
REPLAYS = os.environ.get("VERIF_REPLAY_DIR") or os.path.join(ROOT, "replays")
os.environ.setdefault("PANDAPIPES_VERIF", "1")
os.environ.setdefault("PYTHONHASHSEED", "0")


def tier():
    t = os.environ.get("VERIF_TIER", "quick")
    return t if t in ("quick", "thorough") else "quick"


def seed():
    try:
        return int(os.environ.get("VERIF_SEED", "0"))
    except ValueError:
        return 0


def nworkers():
    return int(os.environ.get("VERIF_WORKERS", str(min(16, os.cpu_count() or 4))))


def pmap(fn, items, chunksize=8, workers=None):
    workers = workers or nworkers()
    if workers <= 1 or len(items) < 4:
        return [fn(x) for x in items]
    with ProcessPoolExecutor(max_workers=workers) as ex:
        return list(ex.map(fn, items, chunksize=chunksize))


class Scratch:
    """private scratch directory removed at exit (nothing registered depends on /tmp content)"""
    def __init__(self, prefix="verif_"):
        self.dir = tempfile.mkdtemp(prefix=prefix)

    def path(self, name):
        return os.path.join(self.dir, name)

    def cleanup(self):
        shutil.rmtree(self.dir, ignore_errors=True)


def write_ndjson(path, records):
    with open(path, "w") as f:
        for r in records:
            f.write(json.dumps(r, separators=(",", ":")) + "\n")


def load_findings():
    p = os.path.join(ROOT, "known_findings.json")
    if not os.path.exists(p):
        return []
    return json.load(open(p)).get("findings", [])


def match_finding(findings, prop, clause, signature):
    """a violation is covered by a KNOWN finding only on the full (property, clause, signature)."""
    for f in findings:
        if f.get("status") != "known":
            continue
        if f["property"] == prop and f["clause"] == clause and f["signature"] == signature:
            return f
    return None


def save_replay(prop, name, payload):
    d = os.path.join(REPLAYS, prop)
    os.makedirs(d, exist_ok=True)
    p = os.path.join(d, name + ".json")
    with open(p, "w") as f:
        json.dump(payload, f, indent=1, sort_keys=True)
    return p


def write_evidence(prop, level, coverage, wall, violations, assumptions=None, extra=None):
    os.makedirs(EVID, exist_ok=True)
    ev = {"property_id": prop, "tier": tier(), "seed": seed(), "level": level,
          "coverage": coverage, "wall_s": round(wall, 2), "violations": int(violations),
          "assumptions": assumptions or []}
    if extra:
        ev.update(extra)
    with open(os.path.join(EVID, prop + ".json"), "w") as f:
        json.dump(ev, f, indent=1, sort_keys=True)


class Verdicts:
    """collects violations / known findings for one property check and turns them into the
    interface's stdout lines and exit status."""
    def __init__(self, prop):
        self.prop = prop
        self.findings = load_findings()
        self.violations = []      # (clause, signature, replay_path, text)
        self.known = {}           # finding id -> count
        self.notes = []

    def report(self, clause, signature, payload, text=""):
        f = match_finding(self.findings, self.prop, clause, signature)
        if f is not None:
            self.known.setdefault(f["id"], [f, 0])[1] += 1
            return False
        h = hashlib.sha1(json.dumps([clause, signature], sort_keys=True).encode()).hexdigest()[:10]
        if any(v[0] == clause and v[1] == signature for v in self.violations):
            return True
        path = save_replay(self.prop, "%s_%s" % (clause.replace(".", "_"), h),
                           {"property": self.prop, "clause": clause, "signature": signature,
                            "text": text, "case": payload})
        self.violations.append((clause, signature, path, text))
        return True

    def finish(self):
        for fid, (f, n) in sorted(self.known.items()):
            print("KNOWN-FINDING: property=%s %s [%s, %d occurrence(s)]" % (self.prop, f["text"], fid, n))
        for clause, sig, path, text in self.violations:
            print("VIOLATION property=%s replay=%s clause=%s signature=%s %s"
                  % (self.prop, path, clause, json.dumps(sig), text))
        return 1 if self.violations else 0


def machinery_failure(prop, msg):
    print("MACHINERY-FAILURE property=%s %s" % (prop, msg))
    sys.exit(2)


def spec_hash(*modules):
    """hash of the named spec modules' sources (cache key for generator output, which depends on
    the specification only, never on /repo)"""
    h = hashlib.sha1()
    sd = os.path.join(ROOT, "spec")
    for m in sorted(os.listdir(sd)):
        if m.endswith(".tla") and (not modules or m[:-4] in modules):
            h.update(open(os.path.join(sd, m), "rb").read())
    return h.hexdigest()[:16]


def cached(key, fn):
    """memoise generator output (JSON-serialisable) under /verif/build/cache"""
    d = os.path.join(ROOT, "build", "cache")
    os.makedirs(d, exist_ok=True)
    p = os.path.join(d, hashlib.sha1(key.encode()).hexdigest()[:20] + ".json")
    if os.path.exists(p) and not os.environ.get("VERIF_NOCACHE"):
        try:
            return json.load(open(p))
        except Exception:
            pass
    val = fn()
    tmp = p + ".%d.tmp" % os.getpid()
    with open(tmp, "w") as f:
        json.dump(val, f)
    os.replace(tmp, p)
    return val
