"""C04 - exactly the supplied part of the network is calculated."""
import json, os, sys, time, random
from . import core, tlc, pf


def gen_nets(cfg_consts, simulate=None, depth=None, seed=0, timeout=600, workers=1):
    """run the GenConn model with emission on; return (TLCResult, list of distinct nets)"""
    cfgname = "_gen_%d.cfg" % os.getpid()
    path = os.path.join(tlc.SPEC_DIR, cfgname)
    with open(path, "w") as f:
        f.write("SPECIFICATION Spec\nCONSTANTS\n")
        for k, v in cfg_consts.items():
            f.write("  %s %s\n" % (k, v))
        f.write("  EmitOn = TRUE\nVIEW View\nINVARIANT Emit\nCHECK_DEADLOCK FALSE\n")
    try:
        r = tlc.run("GenConn", cfg=cfgname, workers=workers, simulate=simulate, depth=depth,
                    seed=seed, timeout=timeout, check=False)
    finally:
        os.remove(path)
    nets, seen = [], set()
    for rec in r.by_tag("NET"):
        key = json.dumps(rec["net"], sort_keys=True)
        if key in seen:
            continue
        seen.add(key)
        nets.append(rec)
    return r, nets


PF_OPTS = {"use_numba": False, "max_iter_hyd": 40, "tol_p": 1e-10, "tol_m": 1e-10, "tol_res": 1e-8}

MODEL_CFG = {
    "quick": [dict(MaxJ="= 3", MaxE="= 2", MaxN="= 1", MaxPV="= 0", Kinds="<- KindsCore",
                   NKinds="<- NKindsCore", TogJ="= FALSE")],
    "thorough": [dict(MaxJ="= 3", MaxE="= 2", MaxN="= 1", MaxPV="= 1", Kinds="<- KindsCore",
                      NKinds="<- NKindsCore", TogJ="= FALSE"),
                 dict(MaxJ="= 2", MaxE="= 2", MaxN="= 2", MaxPV="= 1", Kinds="<- KindsAll",
                      NKinds="<- NKindsAll", TogJ="= TRUE")],
}
EXH_EMIT = dict(MaxJ="= 2", MaxE="= 1", MaxN="= 1", MaxPV="= 1", Kinds="<- KindsAll",
                NKinds="<- NKindsAll", TogJ="= TRUE")
SIM_EMIT = dict(MaxJ="= 4", MaxE="= 4", MaxN="= 3", MaxPV="= 2", Kinds="<- KindsAll",
                NKinds="<- NKindsAll", TogJ="= TRUE")


def model_check(consts, workers=8, timeout=3000):
    cfgname = "_mc_%d.cfg" % os.getpid()
    path = os.path.join(tlc.SPEC_DIR, cfgname)
    with open(path, "w") as f:
        f.write("SPECIFICATION Spec\nCONSTANTS\n")
        for k, v in consts.items():
            f.write("  %s %s\n" % (k, v))
        f.write("  EmitOn = FALSE\nVIEW View\nINVARIANT InvWellFormed\nINVARIANT InvFixpoint\n"
                "INVARIANT InvSlackSupplied\nINVARIANT InvNoSlackNoSupply\nPROPERTY Monotone\n"
                "CHECK_DEADLOCK FALSE\n")
    try:
        return tlc.run("GenConn", cfg=cfgname, workers=workers, timeout=timeout, check=True)
    finally:
        os.remove(path)


def validate(cases, prop_checks=("C04",)):
    """feed recorded cases to the trace specification; returns (TLCResult, list of FAIL records)"""
    sc = core.Scratch()
    try:
        p = sc.path("trace.ndjson")
        core.write_ndjson(p, cases)
        res = tlc.run("Trace_PF", env={"TRACE_FILE": p}, check=True, timeout=3000)
        summ = res.by_tag("SUMMARY")
        if not summ or summ[0]["cases"] != len(cases) or summ[0]["consumed"] != len(cases):
            raise tlc.TLCError("trace not fully consumed: %s" % summ)
        return res, res.by_tag("FAIL")
    finally:
        sc.cleanup()


def main():
    t0 = time.time()
    tr, sd = core.tier(), core.seed()
    V = core.Verdicts("C04")
    # 1. the design: exhaustive model checking of the connectivity semantics
    states = trans = 0
    mc_runs = []
    for consts in MODEL_CFG[tr]:
        r = model_check(consts, workers=core.nworkers())
        states += r.distinct
        trans += r.generated
        mc_runs.append({"constants": consts, "distinct_states": r.distinct, "states_generated": r.generated,
                        "depth": r.depth, "wall_s": round(r.wall, 1)})
    # 2. spec -> code: nets emitted by TLC
    r1, nets1 = gen_nets(EXH_EMIT, timeout=600)
    nsim = 60 if tr == "quick" else 900
    r2, nets2 = gen_nets(SIM_EMIT, simulate="num=%d" % nsim, depth=18, seed=1000 + sd, timeout=1200)
    rnd = random.Random(sd)
    cap = 2500 if tr == "quick" else 40000
    if len(nets2) > cap:
        nets2 = rnd.sample(nets2, cap)
    jobs = []
    for i, n in enumerate(nets1 + nets2):
        jobs.append({"id": "%s%d" % ("x" if i < len(nets1) else "s", i), "an": n["net"],
                     "opts": PF_OPTS, "check": ["C04"], "prune": True})
    cases = core.pmap(pf.run_case_prune, jobs, chunksize=16)
    skipped = [c for c in cases if "skip" in c]
    cases = [c for c in cases if "skip" not in c]
    by_id = {c["id"]: c for c in cases}
    # 2b. thermal connectivity: nets with p / t / pt feeders solved in sequential mode (thermal result pattern)
    from . import c01
    TH = dict(MaxJ="= 4", MaxE="= 4", MaxN="= 3", MaxPV="= 1", Kinds="<- KindsAll", NKinds="<- NKindsTherm", TogJ="= FALSE")
    r3, nets3 = gen_nets(TH, simulate="num=%d" % (60 if tr == "quick" else 900), depth=18, seed=3000 + sd, timeout=1200)
    nets3 = [n for n in nets3 if n["sup"]]
    if len(nets3) > (900 if tr == "quick" else 20000):
        nets3 = rnd.sample(nets3, 900 if tr == "quick" else 20000)
    topts = dict(PF_OPTS, mode="sequential", max_iter_therm=40, tol_T=1e-8)
    tjobs = [{"id": "t%d" % i, "an": n["net"], "opts": topts, "check": ["C04", "C04T"], "prune": False,
              "params": c01.row_params(n["net"])} for i, n in enumerate(nets3)]
    tcases = [c for c in core.pmap(pf.run_case_prune, tjobs, chunksize=16) if "skip" not in c]
    cases = cases + tcases
    suite_cov = {}
    if tr == "thorough":          # every pipeflow call of the repository's own test-suite, judged by the same clauses
        from . import suite
        scases, suite_cov = suite.pf_cases(["C04"])
        cases = cases + scases
    by_id = {c["id"]: c for c in cases}
    # 3. code -> spec: TLC decides every clause on every recorded case
    res, fails = validate(cases)
    import collections
    clause_count = collections.Counter()
    for f in fails:
        for cl in f["clauses"]:
            clause_count[cl[0]] += 1
            V.report(cl[0], cl[1], by_id[f["id"]], text="detail=%s case=%s" % (cl[2:], f["id"]))
    outcomes = collections.Counter(c.get("oclass", c["outcome"]) for c in cases)
    nontriv = sum(1 for c in cases if c["outcome"] == "returned"
                  and any(j["p"][0] != 0 for j in c["net"]["J"]) and any(j["p"][0] == 0 for j in c["net"]["J"]))
    samples = [{"net": c["net"], "outcome": c["outcome"]} for c in cases[:1]] + \
              [{"id": c["id"], "junction_p_kind": [j["p"][0] for j in c["net"]["J"]],
                "rows": [(e["tbl"], e["a"], e["b"], e["svc"], e["hydall"]) for e in c["net"]["E"]],
                "outcome": c["outcome"]} for c in cases[len(nets1):len(nets1) + 3]]
    cov = {"states": states, "transitions": trans, "traces_validated_against_impl": len(cases),
           "samples": samples, "exhaustive": False,
           "model_checking_runs": mc_runs,
           "emitted_exhaustive_small": len(nets1), "emitted_simulated": len(nets2),
           "trace_spec_states": res.distinct,
           "outcomes": dict(outcomes), "skipped_builds": len(skipped),
           "partly_supplied_returned_cases": nontriv,
           "pruned_pairs": sum(1 for c in cases if "pnet" in c),
           "thermal_pattern_cases": len(tcases), "thermal_pattern_returned": sum(1 for c in tcases if c["outcome"] == "returned"),
           "failing_clause_counts": dict(clause_count), "repository_suite": suite_cov,
           "evaluations": len(cases), "distinct_nontrivial": nontriv,
           "rule": "distinct abstract nets emitted by TLC (exhaustive small config + seeded simulation of a larger "
                   "config); non-trivial = returned run with both supplied and unsupplied junctions"}
    rc = V.finish()
    core.write_evidence("C04", "model_checking", cov, time.time() - t0, len(V.violations),
                        assumptions=["numbers are classified NaN/finite and quantised to 1e-9 ticks by harness/netio.project",
                                     "pruned-net comparison tolerance 2e-7 (bar, kg/s) with solver tolerances 1e-10",
                                     "thermal pattern: sequential mode, junctions outside the thermally supplied part must report the ambient temperature (293.15 K)"])
    print("C04 %s: model states=%d, nets replayed=%d (%s), violations=%d, known=%d, %.0fs"
          % (tr, states, len(cases), dict(outcomes), len(V.violations), len(V.known), time.time() - t0))
    return rc


def replay(path):
    """re-run one recorded case on the current tree and let TLC judge it again"""
    rec = json.load(open(path))
    c = rec["case"]
    an = {"J": [dict(lab=j["lab"], svc=j["svc"]) for j in c["net"]["J"]],
          "E": [{k: e[k] for k in ("tbl", "lab", "a", "b", "et", "svc", "ca", "cj", "typ", "sec")} for e in c["net"]["E"]],
          "N": [{k: n[k] for k in ("tbl", "lab", "j", "svc", "typ")} for n in c["net"]["N"]]}
    case = pf.run_case_prune({"id": c["id"], "an": an, "opts": PF_OPTS, "check": ["C04"], "prune": True})
    res, fails = validate([case])
    for f in fails:
        print("FAIL", f)
    print("outcome:", case["outcome"])
    return 1 if fails else 0
