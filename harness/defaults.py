"""C16: documented defaults (spec/PPDefaults.tla, transcribed from the baseline signatures) vs what create_* stores."""
import json, math, logging, warnings
from . import core, tlc

warnings.filterwarnings("ignore")
logging.disable(logging.CRITICAL)
RESOLVED = {("create_ext_grid", "type"), ("create_ext_grid", "p_bar"), ("create_ext_grid", "t_k"),
            ("create_circ_pump_const_pressure", "type"), ("create_circ_pump_const_mass_flow", "type"),
            ("create_circ_pump_const_pressure", "t_flow_k"), ("create_circ_pump_const_mass_flow", "t_flow_k"),
            ("create_heat_consumer", "qext_w"), ("create_heat_consumer", "controlled_mdot_kg_per_s")}
TABLE = {"create_junction": "junction", "create_sink": "sink", "create_source": "source", "create_mass_storage": "mass_storage",
         "create_ext_grid": "ext_grid", "create_heat_exchanger": "heat_exchanger", "create_pipe_from_parameters": "pipe",
         "create_valve": "valve", "create_pump": "pump", "create_circ_pump_const_pressure": "circ_pump_pressure",
         "create_circ_pump_const_mass_flow": "circ_pump_mass", "create_compressor": "compressor",
         "create_pressure_control": "press_control", "create_flow_control": "flow_control", "create_heat_consumer": "heat_consumer"}


def canon(v):
    if v is None:
        return "null"
    if isinstance(v, (bool,)) or type(v).__name__ in ("bool_", "bool"):
        return "True" if bool(v) else "False"
    if isinstance(v, str):
        return v
    try:
        f = float(v)
        if math.isnan(f):
            return "null"
        if math.isinf(f):
            return "inf"
        return repr(f)
    except (TypeError, ValueError):
        return str(v)


def cases():
    import pandapipes as pp
    import re
    spec = open(tlc.SPEC_DIR + "/PPDefaults.tla").read()
    cols = {m.group(1): re.findall(r"(\w+) \|->", m.group(2)) for m in re.finditer(r"^  (\w+) \|-> \[(.*?)\]", spec, re.M)}
    out = []
    for fn, table in TABLE.items():
        net = pp.create_empty_network(fluid="lgas" if fn == "create_compressor" else "water")
        j = pp.create_junctions(net, 3, 5.0, 300.0)
        pp.create_ext_grid(net, j[0], 5.0, 300.0)
        pp.create_pipe_from_parameters(net, j[0], j[1], 0.1, 80.0)
        req = {"create_junction": dict(pn_bar=5.0, tfluid_k=300.0), "create_sink": dict(junction=j[1], mdot_kg_per_s=0.1),
               "create_source": dict(junction=j[1], mdot_kg_per_s=0.1), "create_mass_storage": dict(junction=j[1], mdot_kg_per_s=0.1),
               "create_ext_grid": dict(junction=j[2], p_bar=4.0, t_k=300.0),
               "create_heat_exchanger": dict(from_junction=j[1], to_junction=j[2], qext_w=100.0, inner_diameter_mm=80.0),
               "create_pipe_from_parameters": dict(from_junction=j[1], to_junction=j[2], length_km=0.1, inner_diameter_mm=80.0),
               "create_valve": dict(junction=j[1], element=j[2], et="ju", inner_diameter_mm=80.0),
               "create_pump": dict(from_junction=j[1], to_junction=j[2], std_type="P1"),
               "create_circ_pump_const_pressure": dict(return_junction=j[2], flow_junction=j[1], p_flow_bar=5.0, plift_bar=1.0, t_flow_k=350.0),
               "create_circ_pump_const_mass_flow": dict(return_junction=j[2], flow_junction=j[1], p_flow_bar=5.0, mdot_flow_kg_per_s=0.5, t_flow_k=350.0),
               "create_compressor": dict(from_junction=j[1], to_junction=j[2], pressure_ratio=1.2),
               "create_pressure_control": dict(from_junction=j[1], to_junction=j[2], controlled_junction=j[2], controlled_p_bar=3.0),
               "create_flow_control": dict(from_junction=j[1], to_junction=j[2], controlled_mdot_kg_per_s=0.1),
               "create_heat_consumer": dict(from_junction=j[1], to_junction=j[2], qext_w=100.0, controlled_mdot_kg_per_s=0.1)}[fn]
        case = {"id": "def." + fn, "kind": "default", "fn": fn, "rows": [], "raised": ""}
        try:
            idx = getattr(pp, fn)(net, **req)
            row = net[table].loc[idx]
            for col in cols.get(fn, []):
                if (fn, col) in RESOLVED or col in req or col not in net[table].columns:
                    continue
                case["rows"].append({"col": col, "obs": canon(row[col])})
        except Exception as e:  # noqa
            case["raised"] = type(e).__name__
        out.append(case)
    return out


def _fresh():
    import pandapipes as pp
    from pandapipes.pandapipes_net import Sector
    net = pp.create_empty_network(fluid="water")
    j = pp.create_junctions(net, 3, 5.0, 300.0)
    pp.create_ext_grid(net, j[0], 5.0, 300.0)
    pp.create_pipe_from_parameters(net, j[0], j[1], 0.1, 80.0, index=4)
    pp.create_sink(net, j[1], 0.1, index=2)
    return net, [int(x) for x in j]


def invalid_cases():
    """every create function x every reference argument replaced by a missing junction / pipe / std type, a taken index,
    inadmissible specifications; bulk functions with one bad row.  before/after: digests of everything in the net."""
    import pandapipes as pp
    from . import hist as H
    net0, j = _fresh()
    a, b, c = j
    V = {  # fn -> valid kwargs
        "create_junction": dict(pn_bar=5.0, tfluid_k=300.0),
        "create_sink": dict(junction=b, mdot_kg_per_s=0.1), "create_source": dict(junction=b, mdot_kg_per_s=0.1),
        "create_mass_storage": dict(junction=b, mdot_kg_per_s=0.1), "create_ext_grid": dict(junction=c, p_bar=4.0, t_k=300.0),
        "create_heat_exchanger": dict(from_junction=b, to_junction=c, qext_w=100.0, inner_diameter_mm=80.0),
        "create_pipe": dict(from_junction=b, to_junction=c, std_type="80_GGG", length_km=0.1),
        "create_pipe_from_parameters": dict(from_junction=b, to_junction=c, length_km=0.1, inner_diameter_mm=80.0),
        "create_valve": dict(junction=b, element=c, et="ju", inner_diameter_mm=80.0),
        "create_pump": dict(from_junction=b, to_junction=c, std_type="P1"),
        "create_pump_from_parameters": dict(from_junction=b, to_junction=c, new_std_type_name="newpump", pressure_list=[6.0, 5.0, 4.0],
                                            flowrate_list=[0, 10, 20], reg_polynomial_degree=2),
        "create_circ_pump_const_pressure": dict(return_junction=c, flow_junction=b, p_flow_bar=5.0, plift_bar=1.0, t_flow_k=350.0),
        "create_circ_pump_const_mass_flow": dict(return_junction=c, flow_junction=b, p_flow_bar=5.0, mdot_flow_kg_per_s=0.5, t_flow_k=350.0),
        "create_compressor": dict(from_junction=b, to_junction=c, pressure_ratio=1.2),
        "create_pressure_control": dict(from_junction=b, to_junction=c, controlled_junction=c, controlled_p_bar=3.0),
        "create_flow_control": dict(from_junction=b, to_junction=c, controlled_mdot_kg_per_s=0.1),
        "create_heat_consumer": dict(from_junction=b, to_junction=c, qext_w=100.0, controlled_mdot_kg_per_s=0.1),
        "create_junctions": dict(nr_junctions=2, pn_bar=5.0, tfluid_k=300.0),
        "create_sinks": dict(junctions=[b, c], mdot_kg_per_s=0.1), "create_sources": dict(junctions=[b, c], mdot_kg_per_s=0.1),
        "create_ext_grids": dict(junctions=[b, c], p_bar=4.0, t_k=300.0),
        "create_pipes": dict(from_junctions=[a, b], to_junctions=[b, c], std_type="80_GGG", length_km=0.1),
        "create_pipes_from_parameters": dict(from_junctions=[a, b], to_junctions=[b, c], length_km=0.1, inner_diameter_mm=80.0),
        "create_valves": dict(junctions=[a, b], elements=[b, c], et="ju", inner_diameter_mm=80.0),
        "create_pressure_controls": dict(from_junctions=[a, b], to_junctions=[b, c], controlled_junctions=[b, c], controlled_p_bar=3.0),
        "create_flow_controls": dict(from_junctions=[a, b], to_junctions=[b, c], controlled_mdot_kg_per_s=0.1),
        "create_heat_exchangers": dict(from_junctions=[a, b], to_junctions=[b, c], qext_w=100.0, inner_diameter_mm=80.0),
        "create_heat_consumers": dict(from_junctions=[a, b], to_junctions=[b, c], qext_w=[100.0, 200.0], controlled_mdot_kg_per_s=[0.1, 0.2]),
    }
    out = []

    def digs(net):
        d = H.description_digests(net)
        d["tables"] = ",".join(sorted(k for k in net.keys() if hasattr(net[k], "columns") and not k.startswith("_")))
        return d

    def attempt(fn, kw, kind, what):
        net, _ = _fresh()
        before = digs(net)
        raised = ""
        try:
            r = getattr(pp, fn)(net, **kw)
            if r is None and fn != "create_fluid_from_lib":
                raised = "returned_None"
        except Exception as e:  # noqa
            raised = type(e).__name__
        out.append({"id": "%s.%s.%s" % (kind, fn, what), "kind": kind, "fn": fn, "what": what, "raised": raised,
                    "before": before, "after": digs(net), "rows": []})

    for fn, kw in V.items():
        if not hasattr(pp, fn):
            continue
        attempt(fn, kw, "valid", "")
        for k, v in kw.items():
            if (("junction" in k and k != "nr_junctions") or k in ("element", "elements")):
                bad = 999 if not isinstance(v, list) else [v[0], 999]
                attempt(fn, dict(kw, **{k: bad}), "invalid", "missing_" + k)
            if k == "std_type":
                attempt(fn, dict(kw, std_type="no_such_type"), "invalid", "missing_std_type")
        tbl = {"create_pipe": "pipe", "create_pipes": "pipe", "create_pipe_from_parameters": "pipe", "create_pipes_from_parameters": "pipe",
               "create_sink": "sink", "create_sinks": "sink"}.get(fn)
        if tbl:       # an index that is already taken
            taken = 4 if tbl == "pipe" else 2
            bulk = isinstance(list(kw.values())[0], list)
            attempt(fn, dict(kw, index=[taken, 77] if bulk else taken), "invalid", "taken_index")
    # inadmissible heat-consumer specifications, single and per row in the bulk function
    hc = dict(from_junction=b, to_junction=c)
    for what, spec in (("dT_and_Tr", dict(deltat_k=10.0, treturn_k=320.0)), ("one_quantity", dict(qext_w=100.0)),
                       ("three_quantities", dict(qext_w=100.0, controlled_mdot_kg_per_s=0.1, deltat_k=10.0))):
        attempt("create_heat_consumer", dict(hc, **spec), "invalid", what)
    nan = float("nan")
    hcs = dict(from_junctions=[a, b], to_junctions=[b, c])
    attempt("create_heat_consumers", dict(hcs, qext_w=[100.0, nan], controlled_mdot_kg_per_s=[0.1, nan], deltat_k=[nan, 10.0], treturn_k=[nan, 320.0]),
            "invalid", "row_with_dT_and_Tr")
    attempt("create_heat_consumers", dict(hcs, qext_w=[100.0, 100.0], controlled_mdot_kg_per_s=[0.1, nan]), "invalid", "row_with_one_quantity")
    attempt("create_valve", dict(junction=c, element=4, et="pi", inner_diameter_mm=80.0), "invalid", "pipe_not_at_junction")
    attempt("create_valve", dict(junction=b, element=999, et="pi", inner_diameter_mm=80.0), "invalid", "missing_pipe")
    attempt("create_valve", dict(junction=b, element=4, et="pi", inner_diameter_mm=80.0), "valid", "pipe_valve")
    attempt("create_valve", dict(junction=b, element=c, et="xx", inner_diameter_mm=80.0), "invalid", "unknown_et")
    return out


def run(V):
    cs = cases() + invalid_cases()
    sc = core.Scratch()
    try:
        p = sc.path("trace.ndjson")
        core.write_ndjson(p, cs)
        res = tlc.run("Trace_Defaults", env={"TRACE_FILE": p}, check=True, timeout=600)
        by = {c["id"]: c for c in cs}
        for f in res.by_tag("FAIL"):
            for cl in f["clauses"]:
                V.report(cl[0], "%s.%s" % (cl[1], cl[2]), by[f["id"]], text="case=%s" % f["id"])
    finally:
        sc.cleanup()
    return {"default_value_cells_compared": sum(len(c["rows"]) for c in cs),
            "create_functions_with_defaults_checked": sum(1 for c in cs if c["kind"] == "default"),
            "invalid_argument_calls": sum(1 for c in cs if c["kind"] == "invalid"), "valid_control_calls": sum(1 for c in cs if c["kind"] == "valid"),
            "invalid_argument_calls_refused": sum(1 for c in cs if c["kind"] == "invalid" and c["raised"])}
