"""C16: documented defaults (spec/PPDefaults.tla, transcribed from the baseline signatures) vs what create_* stores."""
import json, math, logging, warnings
from . import core, tlc

warnings.filterwarnings("ignore")
logging.disable(logging.CRITICAL)
RESOLVED = {("create_ext_grid", "type"), ("create_ext_grid", "p_bar"), ("create_ext_grid", "t_k"),
            ("create_circ_pump_const_pressure", "type"), ("create_circ_pump_const_mass_flow", "type"),
            ("create_circ_pump_const_pressure", "t_flow_k"), ("create_circ_pump_const_mass_flow", "t_flow_k"),
            ("create_heat_consumer", "qext_w"), ("create_heat_consumer", "controlled_mdot_kg_per_s")}
TABLE = {"create_junction": "junction", "create_sink": "sink", "create_source": "source", "create_mass_storage": "mass_storage",
         "create_ext_grid": "ext_grid", "create_heat_exchanger": "heat_exchanger", "create_pipe_from_parameters": "pipe",
         "create_valve": "valve", "create_pump": "pump", "create_circ_pump_const_pressure": "circ_pump_pressure",
         "create_circ_pump_const_mass_flow": "circ_pump_mass", "create_compressor": "compressor",
         "create_pressure_control": "press_control", "create_flow_control": "flow_control", "create_heat_consumer": "heat_consumer"}


def canon(v):
    if v is None:
        return "null"
    if isinstance(v, (bool,)) or type(v).__name__ in ("bool_", "bool"):
        return "True" if bool(v) else "False"
    if isinstance(v, str):
        return v
    try:
        f = float(v)
        if math.isnan(f):
            return "null"
        if math.isinf(f):
            return "inf"
        return repr(f)
    except (TypeError, ValueError):
        return str(v)


def cases():
    import pandapipes as pp
    import re
    spec = open(tlc.SPEC_DIR + "/PPDefaults.tla").read()
    cols = {m.group(1): re.findall(r"(\w+) \|->", m.group(2)) for m in re.finditer(r"^  (\w+) \|-> \[(.*?)\]", spec, re.M)}
    out = []
    for fn, table in TABLE.items():
        net = pp.create_empty_network(fluid="lgas" if fn == "create_compressor" else "water")
        j = pp.create_junctions(net, 3, 5.0, 300.0)
        pp.create_ext_grid(net, j[0], 5.0, 300.0)
        pp.create_pipe_from_parameters(net, j[0], j[1], 0.1, 80.0)
        req = {"create_junction": dict(pn_bar=5.0, tfluid_k=300.0), "create_sink": dict(junction=j[1], mdot_kg_per_s=0.1),
               "create_source": dict(junction=j[1], mdot_kg_per_s=0.1), "create_mass_storage": dict(junction=j[1], mdot_kg_per_s=0.1),
               "create_ext_grid": dict(junction=j[2], p_bar=4.0, t_k=300.0),
               "create_heat_exchanger": dict(from_junction=j[1], to_junction=j[2], qext_w=100.0, inner_diameter_mm=80.0),
               "create_pipe_from_parameters": dict(from_junction=j[1], to_junction=j[2], length_km=0.1, inner_diameter_mm=80.0),
               "create_valve": dict(junction=j[1], element=j[2], et="ju", inner_diameter_mm=80.0),
               "create_pump": dict(from_junction=j[1], to_junction=j[2], std_type="P1"),
               "create_circ_pump_const_pressure": dict(return_junction=j[2], flow_junction=j[1], p_flow_bar=5.0, plift_bar=1.0, t_flow_k=350.0),
               "create_circ_pump_const_mass_flow": dict(return_junction=j[2], flow_junction=j[1], p_flow_bar=5.0, mdot_flow_kg_per_s=0.5, t_flow_k=350.0),
               "create_compressor": dict(from_junction=j[1], to_junction=j[2], pressure_ratio=1.2),
               "create_pressure_control": dict(from_junction=j[1], to_junction=j[2], controlled_junction=j[2], controlled_p_bar=3.0),
               "create_flow_control": dict(from_junction=j[1], to_junction=j[2], controlled_mdot_kg_per_s=0.1),
               "create_heat_consumer": dict(from_junction=j[1], to_junction=j[2], qext_w=100.0, controlled_mdot_kg_per_s=0.1)}[fn]
        case = {"id": "def." + fn, "fn": fn, "rows": [], "raised": ""}
        try:
            idx = getattr(pp, fn)(net, **req)
            row = net[table].loc[idx]
            for col in cols.get(fn, []):
                if (fn, col) in RESOLVED or col in req or col not in net[table].columns:
                    continue
                case["rows"].append({"col": col, "obs": canon(row[col])})
        except Exception as e:  # noqa
            case["raised"] = type(e).__name__
        out.append(case)
    return out


def run(V):
    cs = cases()
    sc = core.Scratch()
    try:
        p = sc.path("trace.ndjson")
        core.write_ndjson(p, cs)
        res = tlc.run("Trace_Defaults", env={"TRACE_FILE": p}, check=True, timeout=600)
        by = {c["id"]: c for c in cs}
        for f in res.by_tag("FAIL"):
            for cl in f["clauses"]:
                V.report(cl[0], "%s.%s" % (cl[1], cl[2]), by[f["id"]], text="case=%s" % f["id"])
    finally:
        sc.cleanup()
    return {"default_value_cells_compared": sum(len(c["rows"]) for c in cs), "create_functions_with_defaults_checked": len(cs)}
