"""C10 - temperatures obey the pipe cooling law, energy-conserving mixing and fixed feeds (designed-exact family)."""
from . import therm

RULE = ("designed scenarios with decay factors 1, 1/2, 3/4 per pipe (1-3 sections), two ambient temperatures, heat exchangers, mixing at chords, "
        "branches declared against the flow, solved in modes sequential / bidirectional / heat with different start temperatures and labels; "
        "non-trivial = at least one cooling pipe or exchanger")


def main():
    from . import core, c11
    V = core.Verdicts("C10")
    extra = c11.run("C10", ("C10.",), nq=300, V=V, evidence=False)     # designed loops: feed / supply / return temperatures, second producer
    # temperature-dependent heat capacity: mixing conserves energy (enthalpy balance in integer arithmetic, PPRefMix / Trace_Mix)
    from . import mix
    extra.update(mix.part(V, "C10", core.tier(), core.seed()))
    rc1 = V.finish()
    rc2 = therm.run_check("C10", RULE, extra_cov=extra, prior_violations=len(V.violations))
    return 1 if (rc1 or rc2) else 0


def replay(path):
    import json
    rec = json.load(open(path))
    if "x" in rec.get("case", {}):
        from . import mix
        case = mix.run_case({"id": rec["case"]["id"], "x": rec["case"]["x"]})
        res, fails = mix.validate([case])
        for f in fails:
            print("FAIL", f)
        return 1 if any(cl[0].startswith("C10.") or cl[0].startswith("MIX.") for f in fails for cl in f["clauses"]) else 0
    return therm.replay_file("C10", path)
