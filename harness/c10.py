"""C10 - temperatures obey the pipe cooling law, energy-conserving mixing and fixed feeds (designed-exact family)."""
from . import therm

RULE = ("designed scenarios with decay factors 1, 1/2, 3/4 per pipe (1-3 sections), two ambient temperatures, heat exchangers, mixing at chords, "
        "branches declared against the flow, solved in modes sequential / bidirectional / heat with different start temperatures and labels; "
        "non-trivial = at least one cooling pipe or exchanger")


def main():
    return therm.run_check("C10", RULE)


def replay(path):
    return therm.replay_file("C10", path)
