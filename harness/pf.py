"""Run pandapipes.pipeflow on abstract nets and record trace cases (worker side)."""
import logging, warnings, os, sys
warnings.filterwarnings("ignore")
logging.disable(logging.CRITICAL)

from . import netio


def _pp():
    import pandapipes as pp
    return pp


def run_pipeflow(net, opts):
    """-> outcome string"""
    pp = _pp()
    from pandapipes.pf.pipeflow_setup import PipeflowNotConverged
    try:
        pp.pipeflow(net, **opts)
        return "returned"
    except PipeflowNotConverged:
        return "PipeflowNotConverged"
    except Exception as e:  # noqa
        return "raised:%s:%s" % (type(e).__name__, str(e)[:80])


def run_case(job):
    """job: {id, an, fluid, params, opts, check}"""
    try:
        net = netio.build(job["an"], fluid=job.get("fluid", "water"), params=job.get("params"))
    except Exception as e:  # build refused: not a pipeflow case
        return {"id": job["id"], "skip": "build:%s:%s" % (type(e).__name__, str(e)[:100])}
    opts = dict(job.get("opts") or {})
    outcome = run_pipeflow(net, opts)
    case = {"id": job["id"], "outcome": outcome, "check": job.get("check", []),
            "mode": opts.get("mode", "hydraulics"), "net": netio.project(net)}
    case["converged"] = bool(net.get("converged", False))
    case["ambient"] = netio.limbs(293.15, netio.TSCALE)
    return case


def oclass(outcome):
    """coarse, stable class of an outcome string (used in finding signatures)"""
    if outcome in ("returned", "PipeflowNotConverged"):
        return outcome
    if "direction change in circulation" in outcome:
        return "UserWarning:circ_pump_direction"
    if "identified as disconnected" in outcome:
        return "UserWarning:pc_controlled_junction_disconnected"
    parts = outcome.split(":")
    return ":".join(parts[:2]) if len(parts) > 1 else outcome


def prune_by_results(an):
    """delete every row that did not get results (observed NaN pattern), keep pipe-valves of kept
    pipes.  The trace specification checks that this equals its own Prune."""
    keepJ = {j["lab"] for j in an["J"] if j["p"][0] == 0}
    J = [dict(lab=j["lab"], svc=j["svc"]) for j in an["J"] if j["lab"] in keepJ]
    keepP = {e["lab"] for e in an["E"] if e["tbl"] == "pipe" and e["hydall"] == "num"}
    E = []
    for e in an["E"]:
        if e["hydall"] == "num" or (e["tbl"] == "valve" and e["et"] == "pi" and e["b"] in keepP
                                    and e["a"] in keepJ):
            E.append({k: e[k] for k in ("tbl", "lab", "a", "b", "et", "svc", "ca", "cj", "typ", "sec")})
    N = [{k: n[k] for k in ("tbl", "lab", "j", "svc", "typ")} for n in an["N"]
         if n["svc"] and n["j"] in keepJ]
    return {"J": J, "E": E, "N": N}


def run_case_prune(job):
    """run the net, then the net with everything uncalculated deleted"""
    case = run_case(job)
    if "skip" in case:
        return case
    case["oclass"] = oclass(case["outcome"])
    if case["outcome"] != "returned" or not job.get("prune", True):
        return case
    pan = prune_by_results(case["net"])
    try:
        pnet = netio.build(pan, fluid=job.get("fluid", "water"), params=job.get("params"))
    except Exception as e:
        case["pnote"] = "build:%s" % type(e).__name__
        return case
    po = run_pipeflow(pnet, dict(job.get("opts") or {}))
    case["pnet"] = netio.project(pnet)
    case["poutcome"] = po
    case["poclass"] = oclass(po)
    return case


REVERSIBLE = ("pipe", "heat_exchanger")       # elements without an orientation of their own (plus junction-junction valves)


def related_net(an, kind, rnd):
    """a second description of the same physical system + the relation (for the relational C06 / C09 clauses).
    kind 'iso': injective relabelling of every table and shuffled row order; kind 'rev': a subset of the
    orientation-free branches has from/to swapped."""
    import copy
    bn = copy.deepcopy(an)
    jmap = {j["lab"]: j["lab"] for j in an["J"]}
    emap = {(e["tbl"], e["lab"]): e["lab"] for e in an["E"]}
    rev = []
    if kind == "numba":
        pass        # the same description; only the engine option differs (set by the caller)
    elif kind == "iso":
        pool = [3, 17, 48, 49, 50, 51, 99999, 100000, 100001, 7, 64, 2000001]
        labs = rnd.sample(pool, len(an["J"]))
        jmap = {j["lab"]: labs[i] for i, j in enumerate(an["J"])}
        for t in {e["tbl"] for e in an["E"]}:
            rows = [e for e in an["E"] if e["tbl"] == t]
            nl = rnd.sample([5, 1, 9, 30, 2, 11, 4, 70], len(rows))
            for e, l in zip(rows, nl):
                emap[(t, e["lab"])] = l
        for e in bn["E"]:
            old = (e["tbl"], e["lab"])
            e["a"] = jmap[e["a"]]
            if e["tbl"] == "valve" and e["et"] == "pi":
                e["b"] = emap[("pipe", e["b"])]
            else:
                e["b"] = jmap[e["b"]]
            if e["tbl"] == "press_control":
                e["cj"] = jmap[e["cj"]]
            e["lab"] = emap[old]
        for j in bn["J"]:
            j["lab"] = jmap[j["lab"]]
        for n in bn["N"]:
            n["j"] = jmap[n["j"]]
        rnd.shuffle(bn["J"])
        rnd.shuffle(bn["E"])
        rnd.shuffle(bn["N"])
    else:
        pv_pipes = {e["b"] for e in an["E"] if e["tbl"] == "valve" and e["et"] == "pi"}
        for e in bn["E"]:
            ok = e["tbl"] in REVERSIBLE or (e["tbl"] == "valve" and e["et"] == "ju")
            if ok and rnd.random() < 0.6:
                e["a"], e["b"] = e["b"], e["a"]
                rev.append([e["tbl"], e["lab"]])
    rel = {"jmap": [[k, v] for k, v in jmap.items()], "emap": [[k[0], k[1], v] for k, v in emap.items()], "rev": rev}
    return bn, rel


def params_for(an, rel, base_params):
    """parameters of the related net: the same values for corresponding rows"""
    em = {(t, l): v for t, l, v in rel["emap"]}
    out = {}
    for k, v in (base_params or {}).items():
        if isinstance(k, tuple):
            out[(k[0], em.get((k[0], k[1]), k[1]))] = v
        else:
            out[k] = v           # global parameters (start values)
    return out


def run_case_related(job):
    """run a net and a related description of the same system; both projections go to the trace"""
    import random
    case = run_case(job)
    if "skip" in case:
        return case
    case["oclass"] = oclass(case["outcome"])
    rnd = random.Random(job.get("rseed", 0))
    bn, rel = related_net(job["an"], job["relkind"], rnd)
    p2 = params_for(job["an"], rel, job.get("params"))
    # node-element parameters are keyed by their own labels (unchanged)
    try:
        rnet = netio.build(bn, fluid=job.get("fluid", "water"), params=p2)
    except Exception as e:  # noqa
        return {"id": job["id"], "skip": "build2:%s" % type(e).__name__}
    ro = run_pipeflow(rnet, dict(job.get("opts") or {}, **(job.get("ropts") or {})))
    case["rnet"] = netio.project(rnet)
    case["routcome"] = ro
    case["rel"] = rel
    return case


def run_case_subnet(job):
    """run the net, cut out the supplied region with toolbox.select_subnet and run that"""
    import pandapipes as pp
    import pandapipes.toolbox as tb
    try:
        net = netio.build(job["an"], fluid=job.get("fluid", "water"), params=job.get("params"))
    except Exception as e:  # noqa
        return {"id": job["id"], "skip": "build:%s" % type(e).__name__}
    opts = dict(job.get("opts") or {})
    if job.get("stored_options"):
        # the calculation options are stored ON the net (set_user_pf_options) and nothing is passed with the call: the subnet has to
        # carry them along to reproduce the region's results
        pp.set_user_pf_options(net, **dict(opts, friction_model="colebrook", max_iter_colebrook=60))
        opts = {}
    outcome = run_pipeflow(net, opts)
    case = {"id": job["id"], "outcome": outcome, "oclass": oclass(outcome), "check": job.get("check", []),
            "mode": opts.get("mode", "hydraulics"), "net": netio.project(net), "converged": bool(net.get("converged", False)),
            "ambient": netio.limbs(293.15, netio.TSCALE)}
    if outcome != "returned":
        return case
    supplied = [int(j) for j in net.res_junction.index[net.res_junction.p_bar.notnull().values]]
    try:
        sub = tb.select_subnet(net, supplied)
        so = run_pipeflow(sub, opts)
        case["snet"] = netio.project(sub)
        case["soutcome"], case["soclass"] = so, oclass(so)
    except Exception as e:  # noqa
        case["snet"] = {"J": [], "E": [], "N": []}
        case["soutcome"], case["soclass"] = "raised:select:%s" % type(e).__name__, "raised:select:%s" % type(e).__name__
    return case
