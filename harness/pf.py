"""Run pandapipes.pipeflow on abstract nets and record trace cases (worker side)."""
import logging, warnings, os, sys
warnings.filterwarnings("ignore")
logging.disable(logging.CRITICAL)

from . import netio


def _pp():
    import pandapipes as pp
    return pp


def run_pipeflow(net, opts):
    """-> outcome string"""
    pp = _pp()
    from pandapipes.pf.pipeflow_setup import PipeflowNotConverged
    try:
        pp.pipeflow(net, **opts)
        return "returned"
    except PipeflowNotConverged:
        return "PipeflowNotConverged"
    except Exception as e:  # noqa
        return "raised:%s:%s" % (type(e).__name__, str(e)[:80])


def run_case(job):
    """job: {id, an, fluid, params, opts, check}"""
    try:
        net = netio.build(job["an"], fluid=job.get("fluid", "water"), params=job.get("params"))
    except Exception as e:  # build refused: not a pipeflow case
        return {"id": job["id"], "skip": "build:%s:%s" % (type(e).__name__, str(e)[:100])}
    opts = dict(job.get("opts") or {})
    outcome = run_pipeflow(net, opts)
    case = {"id": job["id"], "outcome": outcome, "check": job.get("check", []),
            "mode": opts.get("mode", "hydraulics"), "net": netio.project(net)}
    case["converged"] = bool(net.get("converged", False))
    case["ambient"] = netio.limbs(293.15, netio.TSCALE)
    return case


def oclass(outcome):
    """coarse, stable class of an outcome string (used in finding signatures)"""
    if outcome in ("returned", "PipeflowNotConverged"):
        return outcome
    if "direction change in circulation" in outcome:
        return "UserWarning:circ_pump_direction"
    if "identified as disconnected" in outcome:
        return "UserWarning:pc_controlled_junction_disconnected"
    parts = outcome.split(":")
    return ":".join(parts[:2]) if len(parts) > 1 else outcome


def prune_by_results(an):
    """delete every row that did not get results (observed NaN pattern), keep pipe-valves of kept
    pipes.  The trace specification checks that this equals its own Prune."""
    keepJ = {j["lab"] for j in an["J"] if j["p"][0] == 0}
    J = [dict(lab=j["lab"], svc=j["svc"]) for j in an["J"] if j["lab"] in keepJ]
    keepP = {e["lab"] for e in an["E"] if e["tbl"] == "pipe" and e["hydall"] == "num"}
    E = []
    for e in an["E"]:
        if e["hydall"] == "num" or (e["tbl"] == "valve" and e["et"] == "pi" and e["b"] in keepP
                                    and e["a"] in keepJ):
            E.append({k: e[k] for k in ("tbl", "lab", "a", "b", "et", "svc", "ca", "cj", "typ", "sec")})
    N = [{k: n[k] for k in ("tbl", "lab", "j", "svc", "typ")} for n in an["N"]
         if n["svc"] and n["j"] in keepJ]
    return {"J": J, "E": E, "N": N}


def run_case_prune(job):
    """run the net, then the net with everything uncalculated deleted"""
    case = run_case(job)
    if "skip" in case:
        return case
    case["oclass"] = oclass(case["outcome"])
    if case["outcome"] != "returned" or not job.get("prune", True):
        return case
    pan = prune_by_results(case["net"])
    try:
        pnet = netio.build(pan, fluid=job.get("fluid", "water"), params=job.get("params"))
    except Exception as e:
        case["pnote"] = "build:%s" % type(e).__name__
        return case
    po = run_pipeflow(pnet, dict(job.get("opts") or {}))
    case["pnet"] = netio.project(pnet)
    case["poutcome"] = po
    case["poclass"] = oclass(po)
    return case
