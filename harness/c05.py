"""C05 - a returned result is converged and finite; a failed run leaves no results.

Layer 1: MC_Driver (TLC, exhaustive) on the driver transcription.
Layer 2: every behaviour of that model is replayed into the REAL newton_raphson with a scripted
         solve function; the hook events are validated by Trace_Solver.
Layer 3: whole pipeflow histories on real nets (success / failure sequences, all modes,
         both damping strategies), hook events + result tables validated by Trace_Solver/Trace_PF.
"""
import json, os, time, random, collections, importlib, math
import numpy as np
from . import core, tlc


# ------------------------------------------------------------------ scripted driver replay
def _ordinal_to_float(o, tol):
    """ordinal -> float error with the same order; 2 is the tolerance rank"""
    if o == -1:
        return float("nan")
    return {1: tol * 0.5, 2: tol, 3: tol * 10.0, 4: tol * 100.0}[o]


def replay_driver(job):
    """drive the real newton_raphson with a scripted solve function producing the model's
    per-iteration observations; returns the recorded hook events as a trace case"""
    import logging, warnings
    logging.disable(logging.CRITICAL)
    warnings.filterwarnings("ignore")
    import pandapipes as pp
    pf = importlib.import_module("pandapipes.pipeflow")
    ps = importlib.import_module("pandapipes.pf.pipeflow_setup")
    from pandapipes import _verif_hooks as vh
    from pandapipes.idx_branch import branch_cols, MDOTINIT
    from pandapipes.idx_node import node_cols, PINIT
    tol = 1e-5
    hist = job["hist"]
    nvars = len(hist[0]["errs"]) if hist else 2
    net = pp.create_empty_network(fluid="water", add_stdtypes=False)
    j = pp.create_junction(net, 5, 300)
    pp.create_ext_grid(net, j, 5, 300)
    ps.init_options(net, nonlinear_method=job["method"], max_iter_hyd=job["maxiter"], tol_m=tol, tol_p=tol,
                    tol_res=tol, alpha=1)
    net["_active_pit"] = {"branch": np.zeros((3, branch_cols)), "node": np.zeros((3, node_cols))}
    net["_active_pit"]["branch"][:, MDOTINIT] = 1.0
    net["_active_pit"]["node"][:, PINIT] = 1.0
    net.converged = False
    state = {"k": 0, "pit_log": []}
    cols = [("branch", MDOTINIT), ("node", PINIT)][:nvars]

    def funct(n):
        k = state["k"]
        state["k"] += 1
        # what the pit holds on entry = after the previous finalize (rejection restores old values)
        state["pit_log"].append([float(n["_active_pit"][p][0, c]) for p, c in cols])
        o = hist[k] if k < len(hist) else hist[-1]
        res = []
        for (p, c), eo in zip(cols, o["errs"]):
            old = n["_active_pit"][p][:, c].copy()
            e = _ordinal_to_float(eo, tol)
            new = old + e
            n["_active_pit"][p][:, c] = new      # the real solve functions update the pit in place
            res += [n["_active_pit"][p][:, c], old]
        return res, np.array([_ordinal_to_float(o["res"], tol)]), [None] * nvars

    vh.drain()
    solver_vars = ["mdot", "p"][:nvars]
    pf.newton_raphson(net, funct, "hydraulics", solver_vars, [tol] * nvars,
                      ["branch", "node"][:nvars], "max_iter_hyd")
    ev = vh.drain()
    state["pit_log"].append([float(net["_active_pit"][p][0, c]) for p, c in cols])
    return {"id": job["id"], "kind": "driver", "method": job["method"], "maxiter": job["maxiter"],
            "events": project_events(ev), "final_converged": bool(net.converged),
            "calls": state["k"], "model": {"converged": job["converged"], "niter": job["niter"]},
            "pit_log": [[_fl(x) for x in r] for r in state["pit_log"]],
            "model_hist": hist}


def _fl(x):
    return "nan" if (isinstance(x, float) and math.isnan(x)) else round(x * 1e9)


def _ordinals(values, tol):
    """order-preserving ordinals of a list of floats, with the tolerance at rank TOLRANK:
    v <= tol  <=>  ord(v) <= TOLRANK.  Values <= tol keep their relative order below the rank."""
    fin = sorted({v for v in values if not math.isnan(v)} | {tol})
    rank = {v: i for i, v in enumerate(fin)}
    t = rank[tol]
    return [(-1 if math.isnan(v) else rank[v] - t + TOLRANK) for v in values], TOLRANK


TOLRANK = 1000


TOL_OF_VAR = {"mdot": "tol_m", "p": "tol_p", "mdotslack": "tol_m", "tout": "tol_T", "t": "tol_T"}


def project_events(ev):
    """hook events -> abstract events.  Per stage and variable the float errors are replaced by
    order-preserving ordinals shifted so that the tolerance sits at TOLRANK."""
    out = []
    stages = []
    cur = None
    options = None
    for name, f in ev:
        if name == "call":
            out.append({"ev": "call"})
            options = f.get("options")
            continue
        if name == "iter":
            if cur is None or f["niter"] == 0:
                cur = {"iters": [], "options": options}
                stages.append(cur)
            cur["iters"].append(f)
            out.append({"ev": "iter", "_ref": (len(stages) - 1, len(cur["iters"]) - 1)})
        elif name == "stage_end":
            # the iteration limit the documented option of this stage resolves to (from the call's resolved options);
            # -1 for scripted driver runs, which have no call event
            optname = {"hydraulics": "max_iter_hyd", "heat": "max_iter_therm", "bidirectional": "max_iter_bidirect"}.get(str(f["stage"]))
            want = int(options[optname]) if (options and optname in options) else -1
            out.append({"ev": "stage_end", "stage": f["stage"], "niter": int(f["niter"]),
                        "maxiter": int(f["max_iter"]), "optiter": want, "converged": bool(f["converged"])})
            cur = None
    # ordinals
    for s in stages:
        its = s["iters"]
        nv = len(its[0]["errors"])
        ords = []
        for v in range(nv):
            vals = [float(i["errors"][v]) for i in its]
            # tolerance in force = the documented option for this quantity (from the call's resolved
            # options); the driver's own tols list is used only for scripted driver runs
            tolv = float(its[0]["tols"][v])
            if s.get("options") and "vars" in its[0]:
                tolv = float(s["options"][TOL_OF_VAR[str(its[0]["vars"][v]).lower()]])
            o, _ = _ordinals(vals, tolv)
            ords.append(o)
        tres = float(s["options"]["tol_res"]) if s.get("options") else float(its[0]["tol_res"])
        ro, _ = _ordinals([float(i["residual"]) for i in its], tres)
        s["ords"], s["ro"] = ords, ro
    for e in out:
        if e["ev"] == "iter":
            si, ii = e.pop("_ref")
            s = stages[si]
            f = s["iters"][ii]
            e.update({"stage": f["stage"], "niter": int(f["niter"]), "method": str(f["method"]),
                      "errs": [s["ords"][v][ii] for v in range(len(s["ords"]))], "res": s["ro"][ii],
                      "alpha_used_is1": bool(f["alpha_used"] == 1), "alpha_next_is1": bool(f["alpha_next"] == 1),
                      "res_nan": bool(f.get("residual_nan") or False),
                      "converged": bool(f["converged"])})
    return out


def gen_driver(consts, timeout=900):
    cfgname = "_drv_%d.cfg" % os.getpid()
    path = os.path.join(tlc.SPEC_DIR, cfgname)
    with open(path, "w") as f:
        f.write("SPECIFICATION Spec\nCONSTANTS\n")
        for k, v in consts.items():
            f.write("  %s %s\n" % (k, v))
        f.write("  EmitOn = TRUE\nCHECK_DEADLOCK FALSE\n")
    try:
        r = tlc.run("MC_Driver", cfg=cfgname, workers=1, timeout=timeout, check=True)
    finally:
        os.remove(path)
    return r, r.by_tag("DRV")


def validate(cases):
    sc = core.Scratch()
    try:
        p = sc.path("trace.ndjson")
        core.write_ndjson(p, cases)
        res = tlc.run("Trace_Solver", env={"TRACE_FILE": p}, check=True, timeout=3000)
        s = res.by_tag("SUMMARY")
        if not s or s[0]["cases"] != len(cases):
            raise tlc.TLCError("trace not consumed: %s" % s)
        return res, res.by_tag("FAIL")
    finally:
        sc.cleanup()


# ------------------------------------------------------------------ whole-call histories
def replay_history(job):
    """perform one MC_Hist behaviour on a fresh real net; one trace case per run op"""
    import logging, warnings
    logging.disable(logging.CRITICAL)
    warnings.filterwarnings("ignore")
    import pandapipes as pp
    from pandapipes import _verif_hooks as vh
    from . import hist as H, pf
    net, knobs = H.NETS[job["net"]]()
    saved = {}
    cases = []
    svec = None
    for k, op in enumerate(job["hist"]):
        if op["op"] in H.EDIT_KEY or op["op"] == "setuser":
            H.apply_edit(net, knobs, op, saved)
            continue
        if op["op"] != "run":
            continue
        opts = H.run_options(op)
        thermal = op["mode"] != "hydraulics"
        vh.drain()
        kw = {}
        if op["mode"] == "heat" and svec is not None:
            kw["sol_vec"] = svec
        from pandapipes.pf.pipeflow_setup import PipeflowNotConverged
        try:
            pp.pipeflow(net, **kw, **opts)
            outcome = "returned"
        except PipeflowNotConverged:
            outcome = "PipeflowNotConverged"
        except Exception as e:  # noqa
            outcome = "raised:%s:%s" % (type(e).__name__, str(e)[:80])
        ev = vh.drain()
        if outcome == "returned" and op["mode"] != "heat":
            svec = H.sol_vec(net)
        nums, bad = H.count_results(net, thermal, hydraulic=op["mode"] != "heat")
        oc = pf.oclass(outcome)
        if "Converged flag not set" in outcome or (op["mode"] == "heat" and ("user_pf_options" in outcome or "hyd_flag" in outcome)) \
                or (op["mode"] == "heat" and "sol_vec" not in kw and outcome.startswith("raised:")):
            oc = "usage_error"       # thermal-only run requested without a stored hydraulic solution / without a solution vector
        cases.append({"id": "%s.%d" % (job["id"], k), "kind": "call", "net": job["net"], "op": op,
                      "events": project_events(ev), "outcome": outcome if outcome in ("returned", "PipeflowNotConverged") else oc,
                      "oclass": oc, "sig": "%s|%s|%s" % (oc, op["mode"], op["method"]), "flag_converged": bool(net.converged),
                      "numbers_in_results": nums if outcome != "returned" else 0,
                      # only nets in which every element is in service and supplied by construction
                      "nonfinite_in_supplied": bad if (outcome == "returned" and job["net"] != "versatility") else 0,
                      "expect": op["expect"], "hist": job["hist"][:k + 1]})
    return cases


def gen_hist(consts, simulate=None, depth=None, seed=0, timeout=900):
    cfgname = "_hist_%d.cfg" % os.getpid()
    path = os.path.join(tlc.SPEC_DIR, cfgname)
    with open(path, "w") as f:
        f.write("SPECIFICATION Spec\nCONSTANTS\n")
        for k, v in consts.items():
            f.write("  %s %s\n" % (k, v))
        f.write("  EmitOn = TRUE\nCHECK_DEADLOCK FALSE\n")
    try:
        r = tlc.run("MC_Hist", cfg=cfgname, workers=1, simulate=simulate, depth=depth, seed=seed,
                    timeout=timeout, check=False)
    finally:
        os.remove(path)
    seen, out = set(), []
    for h in r.by_tag("HIST"):
        k = json.dumps(h["hist"], sort_keys=True)
        if k not in seen:
            seen.add(k)
            out.append(h["hist"])
    return r, out


HIST_CONSTS = {"Modes": '= {"hydraulics", "sequential", "bidirectional", "heat"}',
               "Budgets": '= {"ample", "starved", "hydstarved", "thermstarved", "bistarved"}', "Methods": '= {"constant", "automatic"}', "TolSets": '= {"default", "split", "split2"}', "Matrix": '= {"plain"}', "EditOps": "= {}"}


def main():
    t0 = time.time()
    tr, sd = core.tier(), core.seed()
    V = core.Verdicts("C05")
    rnd = random.Random(sd)
    # 1. design level: the driver transcription satisfies the C05 clauses (exhaustive)
    big = tr == "thorough"
    dconsts = {"NVars": "= 2", "MaxIter": "= 4" if big else "= 3", "Methods": '= {"constant", "automatic"}',
               "ErrVals": "<- ErrValsDef" if big else "<- ErrValsSmall", "TolRank": "= 2",
               "Decision": '= "required"'}
    cfgname = "_drvmc_%d.cfg" % os.getpid()
    with open(os.path.join(tlc.SPEC_DIR, cfgname), "w") as f:
        f.write("SPECIFICATION Spec\nCONSTANTS\n" + "".join("  %s %s\n" % kv for kv in dconsts.items()) +
                "  EmitOn = FALSE\nINVARIANT InvConvergedWithinTol\nINVARIANT InvConvergedUndamped\nINVARIANT InvBudget\n"
                "INVARIANT InvNaN\nINVARIANT InvAlpha\nINVARIANT InvReject\nCHECK_DEADLOCK FALSE\n")
    try:
        mc = tlc.run("MC_Driver", cfg=cfgname, workers=core.nworkers(), timeout=3000, check=True)
    finally:
        os.remove(os.path.join(tlc.SPEC_DIR, cfgname))
    mh = tlc.run("MC_Hist", workers=core.nworkers(), timeout=3000, check=True)
    # 2. every behaviour of the (small) driver model replayed into the real newton_raphson
    sh = core.spec_hash("PPSolver", "MC_Driver")
    econsts = dict(dconsts, MaxIter="= 3", ErrVals="<- ErrValsSmall")
    beh = core.cached("c05drv" + sh, lambda: gen_driver(econsts)[1])
    if tr == "quick":
        beh = rnd.sample(beh, min(len(beh), 6000))
    djobs = [dict(id="d%d" % i, **b) for i, b in enumerate(beh)]
    dcases = core.pmap(replay_driver, djobs, chunksize=100, workers=8)
    # 3. whole-call histories on real nets
    sh2 = core.spec_hash("MC_Hist")
    hs = core.cached("c05hist3" + sh2, lambda: gen_hist(dict(HIST_CONSTS, MaxOps="= 3"))[1])
    if tr == "quick":
        hs = rnd.sample(hs, min(len(hs), 700))
    else:
        r4, hs4 = gen_hist(dict(HIST_CONSTS, MaxOps="= 5"), simulate="num=3000", depth=6, seed=sd + 5)
        hs = hs + hs4
    hjobs = [{"id": "%s%d" % (n[0], i), "net": n, "hist": h} for i, h in enumerate(hs)
             for n in ("heating_loop", "branched")]
    # a net whose thermal problem has no solution (source at a dead end): every thermal mode must fail, never return
    hjobs += [{"id": "x%d" % i, "net": "deadend", "hist": h} for i, h in enumerate(hs[:: 4])]
    hjobs += [{"id": "y%d" % i, "net": "p_only", "hist": h} for i, h in enumerate(hs[1:: 4])]
    hjobs += [{"id": "%s%d" % (n[0], i), "net": n, "hist": h} for i, h in enumerate(hs) for n in ("gas", "versatility")
              if all(o["op"] != "run" or o["mode"] == "hydraulics" for o in h)]
    hres = core.pmap(replay_history, hjobs, chunksize=8)
    hcases = [c for cs in hres for c in cs]
    cases = dcases + hcases
    nsuite = 0
    if tr == "thorough":          # hook events of every pipeflow call of the repository's own test-suite
        from . import suite
        sc = suite.solver_cases()
        nsuite = len(sc)
        cases = cases + sc
    by_id = {c["id"]: c for c in cases}
    res, fails = validate(cases)
    cc = collections.Counter()
    notes = collections.Counter()
    for f in fails:
        for cl in f["clauses"]:
            if cl[0].startswith("NOTE."):
                notes[cl[0]] += 1
                continue
            cc[cl[0]] += 1
            V.report(cl[0], cl[1], by_id[f["id"]], text="event=%s case=%s" % (f["ev"], f["id"]))
    outc = collections.Counter((c["oclass"], c["expect"]) for c in hcases)
    mismatch = sum(n for (o, e), n in outc.items() if o != e)
    cov = {"states": mc.distinct + mh.distinct, "transitions": mc.generated + mh.generated,
           "traces_validated_against_impl": len(cases),
           "samples": [dcases[len(dcases) // 3], hcases[len(hcases) // 2]],
           "driver_model": {"constants": dconsts, "distinct_states": mc.distinct},
           "history_model_states": mh.distinct,
           "driver_behaviours_replayed": len(dcases), "call_histories_replayed": len(hjobs),
           "pipeflow_calls_validated": len(hcases),
           "outcome_vs_model_expectation": {"%s|%s" % k: v for k, v in outc.items()},
           "conformance_notes": dict(notes), "repository_suite_calls_validated": nsuite, "failing_clause_counts": dict(cc),
           "trace_spec_states": res.distinct,
           "evaluations": len(cases), "distinct_nontrivial": sum(1 for c in hcases if c["outcome"] != "returned"),
           "rule": "driver behaviours: all observation sequences of the bounded driver model; call histories: all MC_Hist "
                   "behaviours of <=3 ops on two thermal nets (thorough: + simulated 5-op histories); non-trivial = failing calls"}
    rc = V.finish()
    core.write_evidence("C05", "model_checking", cov, time.time() - t0, len(V.violations),
                        assumptions=["hook events emitted by pipeflow.newton_raphson under PANDAPIPES_VERIF=1 are faithful (add-only hook)",
                                     "float errors are projected to order-preserving ordinals relative to the tolerance in force",
                                     "scripted driver replay calls pipeflow.newton_raphson(net, funct, ...) directly"])
    print("C05 %s: model states=%d, driver behaviours=%d, pipeflow calls=%d, model-expectation mismatches=%d (notes), violations=%d, %.0fs"
          % (tr, mc.distinct + mh.distinct, len(dcases), len(hcases), mismatch, len(V.violations), time.time() - t0))
    return rc


def replay(path):
    rec = json.load(open(path))
    c = rec["case"]
    if c["kind"] == "driver":
        case = replay_driver({"id": c["id"], "method": c["method"], "maxiter": c["maxiter"],
                              "hist": c["model_hist"], "converged": c["model"]["converged"], "niter": c["model"]["niter"]})
        cases = [case]
    else:
        cases = replay_history({"id": c["id"].split(".")[0], "net": c["net"], "hist": c["hist"]})
    res, fails = validate(cases)
    for f in fails:
        print("FAIL", f)
    return 1 if any(not cl[0].startswith("NOTE.") for f in fails for cl in f["clauses"]) else 0
