------------------------------ MODULE PPOptions ------------------------------
(***************************************************************************)
(* Option resolution of pandapipes.pipeflow: call > stored user options >   *)
(* defaults, with the documented couplings.                                  *)
(*                                                                          *)
(* Values are abstract identifiers: "d" is the documented default of a key, *)
(* "a", "b" two other admissible values (the harness maps them to concrete  *)
(* values and back; iteration limits share one map so that the shorthand    *)
(* `iter` = "a" means the same number as max_iter_hyd = "a").               *)
(* A layer is a function from a finite set of keys to values.               *)
(***************************************************************************)
EXTENDS Integers, Sequences, FiniteSets, TLC

CONSTANTS DefaultKeys      \* every key of the default dictionary

StageKeys == {"max_iter_hyd", "max_iter_therm", "max_iter_bidirect"}
Excluded == {"interactive_plotting", "t_start"}
EmptyLayer == [k \in {} |-> "d"]

Default == [k \in DefaultKeys |-> "d"]

(* the shorthand `iter` fills the three stage limits of ITS OWN layer where that layer does *)
(* not give them explicitly; `iter` itself stays in the layer (carried through)              *)
Expand(L) ==
    IF "iter" \in DOMAIN L
    THEN [k \in DOMAIN L \cup StageKeys |-> IF k \in DOMAIN L THEN L[k] ELSE L["iter"]]
    ELSE L

Merge3(call, user) ==
    LET C == Expand(call)
        U == Expand(user)
    IN [k \in DefaultKeys \cup DOMAIN U \cup DOMAIN C |->
            IF k \in DOMAIN C THEN C[k] ELSE IF k \in DOMAIN U THEN U[k] ELSE Default[k]]

(* value identifiers with a meaning for the couplings *)
BoolTrue(k, v) == \* is value id v of boolean key k the value TRUE? (defaults: only_update F, reuse F, numba T)
    IF k = "use_numba" THEN v = "d" ELSE v = "a"

Resolve(call, user, numbaAvail) ==      \* numbaAvail: is numba importable
    LET M == Merge3(call, user)
        M1 == [k \in DOMAIN M \ Excluded |-> M[k]]
        M2 == IF ~BoolTrue("only_update_hydraulic_matrix", M1["only_update_hydraulic_matrix"])
              THEN [M1 EXCEPT !["reuse_internal_data"] = "d"] ELSE M1        \* reuse only with update
        M3 == IF ~numbaAvail THEN [M2 EXCEPT !["use_numba"] = "a"] ELSE M2    \* fallback: FALSE
        M4 == IF M3["mode"] = "a" THEN [M3 EXCEPT !["mode"] = "b"] ELSE M3    \* "all" -> "sequential"
    IN M4

AllDefaultKeys == {"friction_model", "tol_p", "tol_m", "tol_T", "tol_res", "max_iter_hyd",
    "max_iter_therm", "max_iter_bidirect", "error_flag", "alpha", "nonlinear_method", "mode",
    "ambient_temperature", "check_connectivity", "max_iter_colebrook",
    "only_update_hydraulic_matrix", "reuse_internal_data", "use_numba",
    "quit_on_inconsistency_connectivity", "calc_compression_power", "transient", "dt",
    "tolerance_colebrook"}
=============================================================================
