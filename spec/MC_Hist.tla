------------------------------- MODULE MC_Hist -------------------------------
(***************************************************************************)
(* Histories of calls on ONE net object.  The net is in a condition (ok /   *)
(* nosupply), calculations are started in one of the four modes with a      *)
(* generous or a starved iteration budget, parameters are edited and        *)
(* restored, the net is saved and loaded.  The model carries what the       *)
(* properties say must be true after every call:                            *)
(*   converged flag, result pattern, stored-hydraulics flag.                *)
(* Every behaviour up to MaxOps operations is emitted for replay.           *)
(***************************************************************************)
EXTENDS Integers, Sequences, FiniteSets, TLC, Json

CONSTANTS MaxOps, Modes, Budgets, Methods, TolSets, Matrix, EditOps, EmitOn
(* Matrix: "plain" | "update" (only_update_hydraulic_matrix) | "reuse" (update + reuse_internal_data) *)

VARIABLES cond, edited, struct, uopts, cache, hydflag, conv, res, hist
vars == <<cond, edited, struct, uopts, cache, hydflag, conv, res, hist>>
(* cache: the structure <<cond, struct>> the kept internal data (matrix sparsity) belongs to, or "none".  *)
(* reuse_internal_data is legitimate only while the structure is the one the data was built for. *)

Init == cond = "ok" /\ edited = FALSE /\ struct = FALSE /\ uopts = FALSE /\ cache = <<"none">> /\ hydflag = FALSE /\ conv = FALSE /\ res = "none" /\ hist = <<>>

Outcome(mode, budget) ==
    IF cond = "nosupply" THEN "PipeflowNotConverged"
    ELSE IF mode = "heat" /\ ~hydflag THEN "usage_error"
    ELSE IF budget = "starved" THEN "PipeflowNotConverged"
    (* stage-specific limits: a stage is starved only if the mode runs that stage (hydraulics and sequential run the hydraulic   *)
    (* stage, heat and sequential the thermal stage, bidirectional the coupled stage with its own limit)                         *)
    ELSE IF budget = "hydstarved" /\ mode \in {"hydraulics", "sequential"} THEN "PipeflowNotConverged"
    ELSE IF budget = "thermstarved" /\ mode \in {"heat", "sequential"} THEN "PipeflowNotConverged"
    ELSE IF budget = "bistarved" /\ mode = "bidirectional" THEN "PipeflowNotConverged"
    ELSE "returned"

Run(mode, budget, method, tols, mx) ==
    LET o == Outcome(mode, budget) IN
    /\ (mx = "reuse" => cache \in {<<"none">>, <<cond, struct>>})
    /\ cache' = IF cond # "ok" \/ mode = "heat" THEN cache          \* fails before / never reaches the hydraulic stage
                ELSE IF mx = "reuse" THEN <<cond, struct>> ELSE <<"none">>
    /\ conv' = (o = "returned")
    /\ res' = IF o = "returned" THEN mode ELSE "none"       \* failed run: no table holds a number
    /\ hydflag' = (hydflag \/ (o = "returned" /\ mode # "heat"))
    /\ hist' = Append(hist, [op |-> "run", mode |-> mode, budget |-> budget, method |-> method, tols |-> tols, matrix |-> mx, expect |-> o])
    /\ UNCHANGED <<cond, edited, struct, uopts>>

Break == cond = "ok" /\ cond' = "nosupply" /\ hist' = Append(hist, [op |-> "break"])
         /\ UNCHANGED <<edited, struct, uopts, cache, hydflag, conv, res>>
Repair == cond = "nosupply" /\ cond' = "ok" /\ hist' = Append(hist, [op |-> "repair"])
          /\ UNCHANGED <<edited, struct, uopts, cache, hydflag, conv, res>>
Edit == ~edited /\ edited' = TRUE /\ hist' = Append(hist, [op |-> "edit"])
        /\ UNCHANGED <<cond, struct, uopts, cache, hydflag, conv, res>>
Undo == edited /\ edited' = FALSE /\ hist' = Append(hist, [op |-> "undo"])
        /\ UNCHANGED <<cond, struct, uopts, cache, hydflag, conv, res>>
(* a structural edit that keeps the net feasible (a parallel branch out of service) and its undo *)
StructOff == ~struct /\ struct' = TRUE /\ hist' = Append(hist, [op |-> "struct_off"])
        /\ UNCHANGED <<cond, edited, uopts, cache, hydflag, conv, res>>
StructOn == struct /\ struct' = FALSE /\ hist' = Append(hist, [op |-> "struct_on"])
        /\ UNCHANGED <<cond, edited, uopts, cache, hydflag, conv, res>>
(* the user stores / changes / clears calculation options on the net *)
SetUser(v) == uopts' = (v # "clear") /\ hist' = Append(hist, [op |-> "setuser", v |-> v])
        /\ UNCHANGED <<cond, edited, struct, cache, hydflag, conv, res>>
SaveLoad(path) == hist' = Append(hist, [op |-> "saveload", path |-> path])
        /\ UNCHANGED <<cond, edited, struct, uopts, cache, hydflag, conv, res>>

Finish == /\ EmitOn /\ Len(hist) = MaxOps
          /\ PrintT(ToJson([vp |-> "HIST", hist |-> hist]))
          /\ UNCHANGED vars

Next == \/ /\ Len(hist) < MaxOps
           /\ \/ \E m \in Modes, b \in Budgets, me \in Methods, ts \in TolSets, mx \in Matrix : Run(m, b, me, ts, mx)
              \/ Break \/ Repair
              \/ ("edit" \in EditOps /\ (Edit \/ Undo))
              \/ ("struct" \in EditOps /\ (StructOff \/ StructOn))
              \/ ("user" \in EditOps /\ \E v \in {"iter30", "iter40", "clear"} : SetUser(v))
              \/ \E p \in EditOps \cap {"json_string", "json_file", "pickle", "json_encrypted"} : SaveLoad(p)
        \/ Finish
Spec == Init /\ [][Next]_vars

(* ---- what the properties demand of every state of this machine ---- *)
InvFailedEmpty == (~conv) => res = "none"                  \* C05: failed run leaves no results
InvFlag == conv <=> res # "none"
InvHeatNeedsHyd == \A i \in DOMAIN hist :
    (hist[i].op = "run" /\ hist[i].mode = "heat" /\ hist[i].expect = "returned") =>
        \E k \in 1..(i - 1) : hist[k].op = "run" /\ hist[k].mode # "heat" /\ hist[k].expect = "returned"
Emit == EmitOn => PrintT(ToJson([vp |-> "HIST", hist |-> hist]))
=============================================================================
