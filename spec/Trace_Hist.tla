----------------------------- MODULE Trace_Hist -----------------------------
(***************************************************************************)
(* Trace validation of call histories on one net object (C12, and the       *)
(* save/load steps of C15).  Digests are opaque tokens computed by the      *)
(* harness (bit-exact hashes of tables, fluid, std types, options); the     *)
(* specification states which of them must be equal:                        *)
(*   - a calculation changes no description digest (purity)                 *)
(*   - Solve is a function of <description, options>: equal keys give equal *)
(*     result digests anywhere in the history and on a fresh net            *)
(*   - a thermal-only run from stored hydraulics equals the sequential run  *)
(*   - a save/load step changes no digest at all                            *)
(***************************************************************************)
EXTENDS Num, Json, IOUtils, TLC, SequencesExt

Cases == ndJsonDeserialize(IOEnv.TRACE_FILE)

VARIABLES ci, ei, seen, bad
vars == <<ci, ei, seen, bad>>
(* seen: set of <<key, result digest, outcome>> of the runs so far in this history *)

Init == ci = 1 /\ ei = 1 /\ seen = {} /\ bad = {}

Changed(b, a) == {k \in DOMAIN b \cup DOMAIN a : k \notin DOMAIN b \/ k \notin DOMAIN a \/ b[k] # a[k]}

VecNear(x, y, tol) == Len(x) = Len(y) /\ \A i \in DOMAIN x :
    (IsNum(x[i]) /\ IsNum(y[i]) /\ Near(x[i], y[i], tol)) \/ (~IsNum(x[i]) /\ x[i] = y[i])

RunClauses(e) ==
    {<<"C12.input_mutated", k>> : k \in Changed(e.before, e.after)}
    \cup (IF \E p \in seen : p[1] = e.key /\ (p[2] # e.resdig \/ p[3] # e.oclass)
          THEN {<<"C12.history_dependent", e.mode>>} ELSE {})
    \cup (IF e.oclass # e.fresh_oclass THEN {<<"C12.outcome_differs_from_fresh_net", e.mode>>}
          ELSE IF e.resdig # e.fresh_resdig THEN {<<"C12.result_differs_from_fresh_net", e.mode>>} ELSE {})
    (* C07: with only_update_hydraulic_matrix / reuse_internal_data the call has the outcome and (within the solver tolerance) the   *)
    (* results of the same call without the option on a fresh net                                                                 *)
    \cup (IF "plain_oclass" \in DOMAIN e /\ e.plain_oclass # "" /\ e.plain_oclass # e.oclass
          THEN {<<"C12.matrix_option_changes_outcome", e.mode>>} ELSE {})
    \cup (IF "plain_class" \in DOMAIN e /\ e.plain_class = "other" THEN {<<"C12.matrix_option_changes_result", e.mode>>} ELSE {})
    \cup (IF e.mode = "heat" /\ e.oclass = "returned" /\ ~VecNear(e.tvec, e.seq_tvec, e.ttol)
          THEN {<<"C12.heat_differs_from_sequential", "">>} ELSE {})

(* `before`/`after`: digests of everything but the float cells; `fclass`: for each table whose float *)
(* cells differ, the class of the difference (harness/hist.float_diff_class).                       *)
PathClass(p) == IF p = "pickle" THEN "pickle" ELSE "json"
SaveLoadClauses(e) ==
    {<<"C15.digest_changed", PathClass(e.path), k>> : k \in Changed(e.before, e.after)}
    \cup {<<"C15.float_values_changed", PathClass(e.path), x[1]>> : x \in {x \in ToSet(e.fclass) : x[2] = "other"}}
    \cup (IF \E x \in ToSet(e.fclass) : x[2] = "inf2nan" THEN {<<"C15.infinity_lost", PathClass(e.path), "">>} ELSE {})
    \cup (IF \E x \in ToSet(e.fclass) : x[2] = "lt1e-14" THEN {<<"C15.float_precision", PathClass(e.path), "">>} ELSE {})
    \cup (IF e.raised # "" THEN {<<"C15.raised", e.path, e.raised>>} ELSE {})

Fail(c, f) == IF f = {} THEN TRUE
              ELSE PrintT(ToJson([vp |-> "FAIL", id |-> c.id, ev |-> ei, clauses |-> SetToSeq(f)]))

Step ==
    /\ ci <= Len(Cases) /\ ei <= Len(Cases[ci].events)
    /\ LET c == Cases[ci]  e == c.events[ei]
           f == IF e.op = "run" THEN RunClauses(e)
                ELSE IF e.op = "saveload" THEN SaveLoadClauses(e) ELSE {}
       IN /\ bad' = f /\ Fail(c, f)
          /\ seen' = IF e.op = "run" THEN seen \cup {<<e.key, e.resdig, e.oclass>>} ELSE seen
          /\ ei' = ei + 1 /\ ci' = ci
EndCase ==
    /\ ci <= Len(Cases) /\ ei > Len(Cases[ci].events)
    /\ ci' = ci + 1 /\ ei' = 1 /\ seen' = {} /\ bad' = {}
Next == Step \/ EndCase
Spec == Init /\ [][Next]_vars

TotalEvents == FoldLeft(LAMBDA acc, c : acc + Len(c.events), 0, Cases)
Post == /\ PrintT(ToJson([vp |-> "SUMMARY", cases |-> Len(Cases), events |-> TotalEvents]))
        /\ TLCGet("stats").diameter = TotalEvents + Len(Cases) + 1
=============================================================================
