------------------------------- MODULE PPRefLoop -------------------------------
(***************************************************************************)
(* Designed district-heating loops (C11, feeders of C10):                   *)
(*  circulation pump (flow junction F at 360 K) -> supply pipe (decay fs)   *)
(*  -> junction S -> consumers in parallel (heat consumers in the five      *)
(*  specification modes, heat exchangers) -> junction R -> return pipe      *)
(*  (decay fr) -> pump return.  Constant cp = 4000.                         *)
(* The scenario fixes mass flow m and temperature drop for every consumer;  *)
(* what the user prescribes depends on the mode, the rest is derived.       *)
(***************************************************************************)
EXTENDS Rat, Sequences, FiniteSets

CP == 4000
TFLOW == 360
Fac(fd) == IF fd = 1 THEN <<1, 1>> ELSE IF fd = 2 THEN <<1, 2>> ELSE <<3, 4>>
AmbK(te) == IF te = 1 THEN 283 ELSE 303
Cool(te, fd, Tin) == RAdd(R(AmbK(te)), RMul(RSub(Tin, R(AmbK(te))), Fac(fd)))

Modes == {"MF_DT", "MF_TR", "QE_MF", "QE_DT", "QE_TR", "HX"}
(* consumer: [mode, m (kg/s), dT (K, may be negative: heat fed in)] *)
MTot(x) == LET RECURSIVE S(_) S(i) == IF i = 0 THEN 0 ELSE x.cons[i].m + S(i - 1) IN S(Len(x.cons))
(* x.p2: mass flow of an optional SECOND producer: a mass-flow circulation pump of type "t" (it fixes no pressure, *)
(* only its feed temperature T2FLOW) taking p2 kg/s from the return junction and feeding the supply junction         *)
T2FLOW == 345
MMain(x) == MTot(x) - x.p2                                            \* flow through the main pump and both pipes
TS(x) == RDiv(RAdd(RMul(R(MMain(x)), Cool(x.te, x.fs, R(TFLOW))), R(x.p2 * T2FLOW)), R(MTot(x)))   \* mix at the supply junction
TOut(x, i) == RSub(TS(x), R(x.cons[i].dT))                            \* outlet of consumer i
Q(x, i) == RMul(R(CP * x.cons[i].m), R(x.cons[i].dT))                 \* heat taken out by consumer i (W)
TR(x) == LET RECURSIVE S(_) S(i) == IF i = 0 THEN R(0) ELSE RAdd(RMul(R(x.cons[i].m), TOut(x, i)), S(i - 1))
         IN RDiv(S(Len(x.cons)), R(MTot(x)))                          \* mix at the return junction
TRet(x) == Cool(x.te, x.fr, TR(x))                                    \* temperature back at the pump
PumpHeat(x) == RMul(R(CP * MMain(x)), RSub(R(TFLOW), TRet(x)))        \* what the main pump has to put in
Pump2Heat(x) == RMul(R(CP * x.p2), RSub(R(T2FLOW), TR(x)))            \* ... and the second producer
RECURSIVE SumQ(_, _)
SumQ(x, i) == IF i = 0 THEN R(0) ELSE RAdd(Q(x, i), SumQ(x, i - 1))
LossSupply(x) == RMul(R(CP * MMain(x)), RSub(R(TFLOW), Cool(x.te, x.fs, R(TFLOW))))
LossReturn(x) == RMul(R(CP * MMain(x)), RSub(TR(x), TRet(x)))

=============================================================================
