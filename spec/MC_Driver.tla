------------------------------ MODULE MC_Driver ------------------------------
(***************************************************************************)
(* Bounded model of one Newton stage: every sequence of per-iteration       *)
(* observations (error ordinals per variable, residual ordinal) up to the   *)
(* iteration budget.  Checks the C05 driver clauses on every behaviour.     *)
(***************************************************************************)
EXTENDS PPSolver, TLC, Json

CONSTANTS NVars, MaxIter, Methods, ErrVals, TolRank, Decision, EmitOn
(* Decision = "coded" | "required": which convergence decision the model uses *)

VARIABLES method, niter, alpha, hist, converged, done
vars == <<method, niter, alpha, hist, converged, done>>
(* hist: sequence of [errs, res, used, next, rej, conv] -- one record per iteration *)

Obs == [errs : [1..NVars -> ErrVals], res : ErrVals]

Init == /\ method \in Methods /\ niter = 0 /\ alpha = 0 /\ hist = <<>>
        /\ converged = FALSE /\ done = FALSE

Decide(m, eu, en, errs, res) ==
    IF Decision = "coded" THEN ConvergedAsCoded(m, eu, en, errs, res, TolRank)
    ELSE ConvergedRequired(m, eu, en, errs, res, TolRank)

Iterate(o) ==
    /\ ~done /\ ~converged /\ niter < MaxIter
    /\ LET prev == IF niter = 0 THEN o.errs ELSE hist[niter].errs
           en == NextAlpha(method, alpha, o.errs, prev)
           cv == Decide(method, alpha, en, o.errs, o.res)
       IN /\ alpha' = en
          /\ converged' = cv
          /\ hist' = Append(hist, [errs |-> o.errs, res |-> o.res, used |-> alpha, next |-> en,
                                   rej |-> Rejected(method, o.errs, prev), conv |-> cv])
    /\ niter' = niter + 1
    /\ UNCHANGED <<method, done>>

(* the loop is left: converged or budget exhausted *)
Exit == /\ ~done /\ (converged \/ niter >= MaxIter)
        /\ done' = TRUE
        /\ IF EmitOn THEN PrintT(ToJson([vp |-> "DRV", method |-> method, maxiter |-> MaxIter, tolrank |-> TolRank,
                                         hist |-> hist, converged |-> converged, niter |-> niter]))
           ELSE TRUE
        /\ UNCHANGED <<method, niter, alpha, hist, converged>>

Next == (\E o \in Obs : Iterate(o)) \/ Exit
Spec == Init /\ [][Next]_vars

Last == hist[Len(hist)]
(* ---- C05 driver clauses ---- *)
(* returned (converged) only if the last iteration was within all tolerances, no NaN *)
InvConvergedWithinTol == converged => WithinTol(Last.errs, Last.res, TolRank)
(* ... and, with automatic damping, the last step was undamped *)
InvConvergedUndamped == (converged /\ method = "automatic") => Last.used = 0
(* failure only at the end of the budget; never more iterations than the budget *)
InvBudget == niter <= MaxIter /\ (done /\ ~converged => niter = MaxIter)
(* NaN never converges *)
InvNaN == converged => (\A i \in 1..NVars : Last.errs[i] # NaNo) /\ Last.res # NaNo
(* damping factor stays on the decade ladder; constant method never changes it *)
InvAlpha == alpha \in 0..2 /\ (method = "constant" => alpha = 0)
(* a step is rejected exactly for the variables whose error rose *)
InvReject == \A k \in DOMAIN hist :
    hist[k].rej = (IF method = "automatic" /\ k > 1
                   THEN {i \in 1..NVars : Gt(hist[k].errs[i], hist[k - 1].errs[i])} ELSE {})
ErrValsDef == {NaNo, 1, 3, 4}
ErrValsSmall == {NaNo, 1, 3}
=============================================================================
