------------------------------ MODULE PPSolver ------------------------------
(***************************************************************************)
(* The Newton-Raphson driver of pandapipes.pipeflow (one solved stage).     *)
(* Transcribed from pipeflow.newton_raphson / finalize_iteration /          *)
(* set_damping_factor: one action per loop iteration.                       *)
(*                                                                          *)
(* Errors and residuals are ordinals: what matters to the driver is only    *)
(* their order relative to each other and to the tolerance.  NaNv = -1 is   *)
(* "not a number" (every comparison with it is false).  A value v is within *)
(* tolerance iff 0 <= v <= TolRank.                                         *)
(* alpha is the damping factor as a decade exponent: alpha = 10^-e.         *)
(***************************************************************************)
EXTENDS Integers, Sequences, FiniteSets

NaNo == -1
Gt(x, y) == x # NaNo /\ y # NaNo /\ x > y          \* IEEE: comparisons with NaN are false
Leq(x, y) == x # NaNo /\ y # NaNo /\ x <= y

(* damping update of set_damping_factor: all errors rose -> one decade down (floor 10^-2),     *)
(* otherwise one decade up (ceiling 1)                                                         *)
AlphaDown(e) == IF e < 2 THEN e + 1 ELSE e
AlphaUp(e) == IF e > 0 THEN e - 1 ELSE 0

(* errs : sequence (one entry per solver variable) of error ordinals of THIS iteration,        *)
(* prev : the same for the previous iteration (equal to errs in the first iteration)            *)
Increased(errs, prev) == [i \in DOMAIN errs |-> Gt(errs[i], prev[i])]
AllIncreased(errs, prev) == \A i \in DOMAIN errs : Gt(errs[i], prev[i])

NextAlpha(method, e, errs, prev) ==
    IF method = "automatic" THEN (IF AllIncreased(errs, prev) THEN AlphaDown(e) ELSE AlphaUp(e)) ELSE e

(* variables whose step is rejected (old values restored) *)
Rejected(method, errs, prev) ==
    IF method = "automatic" THEN {i \in DOMAIN errs : Gt(errs[i], prev[i])} ELSE {}

WithinTol(errs, res, tolrank) == (\A i \in DOMAIN errs : Leq(errs[i], tolrank)) /\ Leq(res, tolrank)

(* the convergence decision of finalize_iteration.                                              *)
(*   AsCoded:   the damping factor is updated first and the UPDATED factor is tested           *)
(*   Required:  the property: the step just judged must itself have been undamped              *)
ConvergedAsCoded(method, eUsed, eNext, errs, res, tolrank) ==
    IF method = "automatic" /\ eNext # 0 THEN FALSE ELSE WithinTol(errs, res, tolrank)
ConvergedRequired(method, eUsed, eNext, errs, res, tolrank) ==
    IF method = "automatic" /\ (eNext # 0 \/ eUsed # 0) THEN FALSE ELSE WithinTol(errs, res, tolrank)
=============================================================================
