----------------------------- MODULE Trace_Graph -----------------------------
(***************************************************************************)
(* C18: the topology package's graph against the specification's notion of  *)
(* connectivity (PPConn) and against the solver's result pattern.           *)
(* A case: projected net, the real graph (nodes, keyed edges with weights), *)
(* unsupplied_junctions, distances from a source junction, and the junction *)
(* pressure pattern of a pipeflow on the same net.                          *)
(***************************************************************************)
EXTENDS PPConn, Json, IOUtils, TLC, SequencesExt

Cases == ndJsonDeserialize(IOEnv.TRACE_FILE)
VARIABLES ci, bad
vars == <<ci, bad>>

(* ---- documented meaning of create_nxgraph (default arguments) ---- *)
(* a pipe is cut off if at one of its ends every valve attached there is closed *)
ValvesAt(net, p, j) == {v \in ERows(net) : IsPipeValve(v) /\ v.b = p.lab /\ v.a = j}
PipeBlocked(net, p) == \E j \in {p.a, p.b} : ValvesAt(net, p, j) # {} /\ \A v \in ValvesAt(net, p, j) : ~v.svc
(* arguments of create_nxgraph: fl.excl = tables with include_* = False, fl.nrs = tables with respect_status_* = False, *)
(* fl.rsj = respect_status_junctions.  Defaults: nothing excluded, every status respected.                           *)
DefaultFlags == [excl |-> {}, nrs |-> {}, rsj |-> TRUE]
NodeIn(net, fl, l) == JSvc(net, l) \/ ~fl.rsj
HasEdgeF(net, fl, e) ==
    /\ ~IsPipeValve(e) /\ e.tbl \notin fl.excl
    /\ (e.svc \/ e.tbl \in fl.nrs)
    /\ NodeIn(net, fl, e.a) /\ NodeIn(net, fl, e.b)
    /\ (e.tbl = "pipe" => (~PipeBlocked(net, e) \/ "valve" \in fl.nrs))
HasEdge(net, e) == HasEdgeF(net, DefaultFlags, e)
ExpectedEdgesF(net, fl) == {<<e.tbl, e.lab, e.a, e.b>> : e \in {e \in ERows(net) : HasEdgeF(net, fl, e)}}
ExpectedNodesF(net, fl) == {j.lab : j \in {j \in JRows(net) : NodeIn(net, fl, j.lab)}}
ExpectedEdges(net) == ExpectedEdgesF(net, DefaultFlags)
ExpectedNodes(net) == ExpectedNodesF(net, DefaultFlags)
Undirected(q) == {<<q[1], q[2], q[3], q[4]>>, <<q[1], q[2], q[4], q[3]>>}

RealEdges(c) == {<<g.tbl, g.lab, g.u, g.v>> : g \in ToSet(c.graph.edges)}
Adj(E) == {{q[3], q[4]} : q \in E}
EdgeClauses(c) ==
    LET X == ExpectedEdges(c.net)  R == RealEdges(c) IN
    (IF c.multi      \* multigraph: exactly one keyed edge per element
     THEN {<<"C18.missing_edge", q[1], ToString(q[2])>> : q \in {q \in X : Undirected(q) \cap R = {}}}
          \cup {<<"C18.spurious_edge", q[1], ToString(q[2])>> : q \in {q \in R : Undirected(q) \cap X = {}}}
          \cup (IF Cardinality(R) # Len(c.graph.edges) THEN {<<"C18.duplicate_edge", "", "">>} ELSE {})
     ELSE            \* simple graph: parallel elements share one edge; adjacency must agree
          (IF Adj(X) # Adj(R) THEN {<<"C18.adjacency", "", "">>} ELSE {}))
    \cup (IF ToSet(c.graph.nodes) # ExpectedNodes(c.net) THEN {<<"C18.nodes", "", "">>} ELSE {})

(* ---- connectivity over the expected (undirected) graph ---- *)
GEdges(net) == UNION {{<<q[3], q[4]>>, <<q[4], q[3]>>} : q \in ExpectedEdges(net)}
RECURSIVE Clo(_, _)
Clo(R, Ed) == LET Nx == R \cup {d[2] : d \in {d \in Ed : d[1] \in R}} IN IF Nx = R THEN R ELSE Clo(Nx, Ed)
Comp(net, l) == Clo({l}, GEdges(net))
GraphComponents(net) == {Comp(net, l) : l \in ExpectedNodes(net)}
(* feeders that fix a pressure: in-service p / pt external grids and circulation pumps *)
GraphUnsupplied(net) == {l \in ExpectedNodes(net) : Comp(net, l) \cap {j \in PFixJunctions(net) : JSvc(net, j)} = {}}

(* the graph and the solver mean the same thing only for component mixes without flow-prescribing or   *)
(* directed elements (an active flow controller / heat consumer is an edge of the graph but no pressure *)
(* coupling; a pressure controller is walked from -> to only by the solver)                             *)
InScope(net) == \A e \in ERows(net) : ~IsFlowReturn(e) /\ e.tbl # "press_control"

PatternClauses(c) ==
    (IF ToSet(c.unsupplied) # GraphUnsupplied(c.net) THEN {<<"C18.unsupplied_junctions", "", "">>} ELSE {})
    \cup (IF {ToSet(x) : x \in ToSet(c.graph.components)} # GraphComponents(c.net) THEN {<<"C18.components", "", "">>} ELSE {})
    \cup (IF InScope(c.net) /\ c.outcome = "returned" /\
             (GraphUnsupplied(c.net) \cup {j.lab : j \in {j \in JRows(c.net) : ~j.svc}}) # {j.lab : j \in {j \in JRows(c.net) : j.p[1] # 0}}
          THEN {<<"C18.graph_vs_solver", "", "">>} ELSE {})
    \cup (IF InScope(c.net) /\ GraphUnsupplied(c.net) # ExpectedNodes(c.net) \ HydSupplied(c.net)
          THEN {<<"C18.graph_vs_model", "", "">>} ELSE {})

(* ---- distances: shortest-path sums of pipe lengths (metres), other elements weigh nothing ---- *)
W(net, q) == IF q[1] = "pipe" THEN (CHOOSE e \in ERows(net) : e.tbl = "pipe" /\ e.lab = q[2]).len ELSE 0
INF == 1000000000
RECURSIVE Relax(_, _, _)
Relax(net, d, n) ==
    IF n = 0 THEN d ELSE
    LET d2 == [l \in DOMAIN d |->
                 LET cand == {d[IF q[3] = l THEN q[4] ELSE q[3]] + W(net, q) :
                                 q \in {q \in ExpectedEdges(net) : (q[3] = l \/ q[4] = l) /\ d[IF q[3] = l THEN q[4] ELSE q[3]] < INF}}
                 IN IF cand = {} THEN d[l] ELSE LET m == CHOOSE x \in cand : \A y \in cand : x <= y IN IF m < d[l] THEN m ELSE d[l]]
    IN Relax(net, d2, n - 1)
Dist(net, src) == Relax(net, [l \in ExpectedNodes(net) |-> IF l = src THEN 0 ELSE INF], Cardinality(ExpectedNodes(net)))
DistFrom(net, S) == Relax(net, [l \in ExpectedNodes(net) |-> IF l \in S THEN 0 ELSE INF], Cardinality(ExpectedNodes(net)))
DistClauses(c) ==
    IF c.dist_src = -1 THEN {} ELSE
    LET D == Dist(c.net, c.dist_src)
        obs == {<<x[1], x[2]>> : x \in ToSet(c.dist)}
        ex == {<<l, D[l]>> : l \in {l \in DOMAIN D : D[l] < INF}}
        D2 == DistFrom(c.net, ToSet(c.dist_srcs))
        obs2 == {<<x[1], x[2]>> : x \in ToSet(c.dist_multi)}
        ex2 == {<<l, D2[l]>> : l \in {l \in DOMAIN D2 : D2[l] < INF}}
    IN (IF obs # ex THEN {<<"C18.distance", "", "">>} ELSE {})
       \cup (IF obs2 # ex2 THEN {<<"C18.distance_multi_source", "", "">>} ELSE {})

(* a second graph built with non-default arguments *)
FlagClauses(c) ==
    IF ~("fgraph" \in DOMAIN c) THEN {} ELSE
    IF c.fgraph_exc # "" THEN {<<"C18.flag_graph_raised", c.fgraph_exc, "">>} ELSE
    LET fl == [excl |-> ToSet(c.flags.excl), nrs |-> ToSet(c.flags.nrs), rsj |-> c.flags.rsj]
        X == ExpectedEdgesF(c.net, fl)
        R == {<<g.tbl, g.lab, g.u, g.v>> : g \in ToSet(c.fgraph.edges)}
    IN {<<"C18.flag_missing_edge", q[1], ToString(q[2])>> : q \in {q \in X : Undirected(q) \cap R = {}}}
       \cup {<<"C18.flag_spurious_edge", q[1], ToString(q[2])>> : q \in {q \in R : Undirected(q) \cap X = {}}}
       \cup (IF ToSet(c.fgraph.nodes) # ExpectedNodesF(c.net, fl) THEN {<<"C18.flag_nodes", "", "">>} ELSE {})
CaseClauses(c) == IF c.graph_exc # "" THEN {<<"C18.graph_raised", c.graph_exc, "">>}
                  ELSE EdgeClauses(c) \cup PatternClauses(c) \cup DistClauses(c) \cup FlagClauses(c)

Init == ci = 0 /\ bad = {}
Step == /\ ci < Len(Cases) /\ ci' = ci + 1
        /\ LET c == Cases[ci + 1]  f == CaseClauses(c) IN
           /\ bad' = f
           /\ IF f = {} THEN TRUE ELSE PrintT(ToJson([vp |-> "FAIL", id |-> c.id, clauses |-> SetToSeq(f)]))
Spec == Init /\ [][Step]_vars
Post == /\ PrintT(ToJson([vp |-> "SUMMARY", cases |-> Len(Cases)]))
        /\ TLCGet("stats").diameter - 1 = Len(Cases)
=============================================================================
