---------------------------- MODULE Trace_Defaults ----------------------------
(* C16: a create call with its optional arguments omitted stores the documented defaults (PPDefaults) *)
EXTENDS PPDefaults, Json, IOUtils, TLC, Sequences, Integers, SequencesExt
Cases == ndJsonDeserialize(IOEnv.TRACE_FILE)
VARIABLES ci, bad
vars == <<ci, bad>>
Expected(fn, col) ==
    IF fn = "create_junction" THEN Defaults.create_junction[col]
    ELSE IF fn = "create_sink" THEN Defaults.create_sink[col]
    ELSE IF fn = "create_source" THEN Defaults.create_source[col]
    ELSE IF fn = "create_mass_storage" THEN Defaults.create_mass_storage[col]
    ELSE IF fn = "create_ext_grid" THEN Defaults.create_ext_grid[col]
    ELSE IF fn = "create_heat_exchanger" THEN Defaults.create_heat_exchanger[col]
    ELSE IF fn = "create_pipe_from_parameters" THEN Defaults.create_pipe_from_parameters[col]
    ELSE IF fn = "create_valve" THEN Defaults.create_valve[col]
    ELSE IF fn = "create_pump" THEN Defaults.create_pump[col]
    ELSE IF fn = "create_circ_pump_const_pressure" THEN Defaults.create_circ_pump_const_pressure[col]
    ELSE IF fn = "create_circ_pump_const_mass_flow" THEN Defaults.create_circ_pump_const_mass_flow[col]
    ELSE IF fn = "create_compressor" THEN Defaults.create_compressor[col]
    ELSE IF fn = "create_pressure_control" THEN Defaults.create_pressure_control[col]
    ELSE IF fn = "create_flow_control" THEN Defaults.create_flow_control[col]
    ELSE Defaults.create_heat_consumer[col]
(* kind "default": a call with the optional arguments omitted stores the documented defaults.                      *)
(* kind "invalid":  a call with one invalid argument (a reference to a missing junction / pipe / std type, a taken *)
(*                  index, an inadmissible specification) must be refused and leave every digest of the net unchanged *)
(* kind "valid":    the same call with valid arguments must be accepted (so that the refusals above are not vacuous)  *)
Changed(b, a) == {k \in DOMAIN b \cup DOMAIN a : k \notin DOMAIN b \/ k \notin DOMAIN a \/ b[k] # a[k]}
CaseClauses(c) ==
    IF c.kind = "default" THEN
        (IF c.raised # "" THEN {<<"C16.default_call_raised", c.fn, c.raised>>}
         ELSE {<<"C16.default_value", c.fn, r.col>> : r \in {r \in ToSet(c.rows) : r.obs # Expected(c.fn, r.col)}})
    ELSE IF c.kind = "invalid" THEN
        (IF c.raised = "" THEN {<<"C16.accepted_invalid", c.fn, c.what>>} ELSE {})
        \cup {<<"C16.refusal_not_atomic", c.fn, c.what \o ":" \o k>> : k \in Changed(c.before, c.after)}
    ELSE (IF c.raised # "" THEN {<<"C16.refused_valid", c.fn, c.raised>>} ELSE {})
Init == ci = 0 /\ bad = {}
Step == /\ ci < Len(Cases) /\ ci' = ci + 1
        /\ LET c == Cases[ci + 1]  f == CaseClauses(c) IN
           /\ bad' = f
           /\ IF f = {} THEN TRUE ELSE PrintT(ToJson([vp |-> "FAIL", id |-> c.id, clauses |-> SetToSeq(f)]))
Spec == Init /\ [][Step]_vars
Post == /\ PrintT(ToJson([vp |-> "SUMMARY", cases |-> Len(Cases)]))
        /\ TLCGet("stats").diameter - 1 = Len(Cases)
=============================================================================
