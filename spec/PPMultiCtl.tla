----------------------------- MODULE PPMultiCtl -----------------------------
(***************************************************************************)
(* Vocabulary of the multi-energy control loop shared by the loop model     *)
(* MC_MultiCtl and the trace specification Trace_MultiCtl: member nets,     *)
(* coupled element inputs, which controller kind reads / writes which.      *)
(***************************************************************************)
EXTENDS Integers, Sequences, FiniteSets

Nets == {"power", "gas", "gas2"}
Elems == {"power.load", "power.sgen", "gas.sink", "gas.source", "gas2.source"}
NetOf(e) == IF e \in {"power.load", "power.sgen"} THEN "power" ELSE IF e \in {"gas.sink", "gas.source"} THEN "gas" ELSE "gas2"
(* kind -> <<element read ("" for a setter), element written>> *)
IO(k) == IF k = "P2G" THEN <<"power.load", "gas.source">>
         ELSE IF k = "G2P" THEN <<"gas.sink", "power.sgen">>
         ELSE IF k = "G2G" THEN <<"gas.sink", "gas2.source">>
         ELSE IF k = "SETS" THEN <<"", "gas.sink">>            \* in-net controller of the gas net
         ELSE <<"", "power.load">>                               \* "SETL": in-net controller of the power net
IsCoupling(k) == IO(k)[1] # ""
(* writers of c's source element all come before c (lower level, or same level and lower order) *)
WritersBefore(S, c) == \A d \in S : IO(d.kind)[2] = IO(c.kind)[1] => (d.level < c.level \/ (d.level = c.level /\ d.order < c.order))
=============================================================================
