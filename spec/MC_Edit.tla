------------------------------- MODULE MC_Edit -------------------------------
(***************************************************************************)
(* The editing API as a state machine over curated base nets that contain   *)
(* every reference type (junction-pipe valves whose pipe labels coincide    *)
(* with junction labels, a remote pressure controller, a circulation pump). *)
(* TLC checks that every tool keeps the net referentially intact and emits  *)
(* every behaviour for replay into the real functions.                      *)
(***************************************************************************)
EXTENDS PPEdit, TLC, Json

CONSTANTS MaxOps, OpKinds, BaseIds, EmitOn

VARIABLES base, net, serial, hist, last
vars == <<base, net, serial, hist, last>>

JR(l, i) == [lab |-> l, svc |-> TRUE, id |-> i]
ER(t, l, a, b, et, cj, i) == [tbl |-> t, lab |-> l, a |-> a, b |-> b, et |-> et, svc |-> TRUE, ca |-> TRUE,
                              cj |-> cj, typ |-> IF t \in CircPumpTables THEN "pt" ELSE "", id |-> i]
NR(t, l, j, typ, i) == [tbl |-> t, lab |-> l, j |-> j, svc |-> TRUE, typ |-> typ, id |-> i]

BaseNet(k) ==
    IF k = 1 THEN    \* water net, pipe labels collide with junction labels, two pipe-valves, parallel ju-valve
      [J |-> <<JR(0, 1), JR(1, 2), JR(2, 3), JR(5, 4)>>,
       E |-> <<ER("pipe", 1, 0, 1, "", 0, 5), ER("pipe", 5, 1, 2, "", 0, 6), ER("pipe", 0, 2, 5, "", 0, 7),
               ER("valve", 0, 0, 2, "ju", 0, 8), ER("valve", 1, 1, 5, "pi", 0, 9), ER("valve", 2, 2, 0, "pi", 0, 10),
               ER("flow_control", 0, 1, 5, "", 0, 11)>>,
       N |-> <<NR("ext_grid", 0, 0, "pt", 12), NR("sink", 1, 5, "", 13), NR("sink", 0, 2, "", 14)>>]
    ELSE IF k = 2 THEN   \* chain with a pressure controller whose controlled junction is remote
      [J |-> <<JR(2, 1), JR(0, 2), JR(1, 3), JR(4, 4)>>,
       E |-> <<ER("pipe", 2, 2, 0, "", 0, 5), ER("press_control", 0, 0, 1, "", 4, 6), ER("pipe", 0, 1, 4, "", 0, 7),
               ER("valve", 4, 4, 0, "pi", 0, 8)>>,
       N |-> <<NR("ext_grid", 3, 2, "pt", 9), NR("sink", 0, 4, "", 10), NR("source", 0, 1, "", 11)>>]
    ELSE                 \* heating loop: circulation pump, heat exchanger, heat consumer
      [J |-> <<JR(3, 1), JR(4, 2), JR(7, 3)>>,
       E |-> <<ER("circ_pump_pressure", 0, 7, 3, "", 0, 4), ER("pipe", 4, 3, 4, "", 0, 5),
               ER("heat_exchanger", 3, 4, 7, "", 0, 6), ER("heat_consumer", 0, 3, 7, "", 0, 7),
               ER("valve", 0, 4, 4, "pi", 0, 8)>>,
       N |-> <<>>]

Init == /\ base \in BaseIds /\ net = BaseNet(base) /\ serial = 20 /\ hist = <<>> /\ last = "init"

Targets == {0, 1, 2, 5, 7, 9}
PairsToFn(S) == [k \in {p[1] : p \in S} |-> (CHOOSE p \in S : p[1] = k)[2]]
(* candidate lookups over label set L: at most two keys *)
Lookups(L) ==
    {{<<k, v>>} : k \in L, v \in Targets}
    \cup {{<<k1, v1>>, <<k2, v2>>} : k1 \in L, k2 \in L, v1 \in Targets, v2 \in Targets}
GoodLookups(L) == {S \in Lookups(L) : Cardinality({p[1] : p \in S}) = Cardinality(S) /\ LookupOK(PairsToFn(S), L)}

Log(r) == hist' = Append(hist, r)
Tool(n2, r) == net' = n2 /\ Log(r) /\ last' = r.op /\ UNCHANGED <<base, serial>>

ReindexOp ==
    \E t \in {"junction", "pipe", "valve", "sink"} : \E S \in GoodLookups(TblLabs(net, t)) :
        Tool(Relabel(net, t, PairsToFn(S)), [op |-> "reindex", tbl |-> t, lk |-> S])
ContOp ==
    \E t \in {"junction", "pipe", "valve", "sink"}, st \in {0, 3} :
        Tool(Relabel(net, t, ContLookup(TblLabs(net, t), st)), [op |-> "continuous", tbl |-> t, start |-> st])
ContAllOp == \E st \in {0, 3} : Tool(ContAll(net, st), [op |-> "continuous_all", tbl |-> "all", start |-> st])
DropJOp == \E S \in SUBSET JLabs(net) : S # {} /\ Cardinality(S) <= 2 /\
        Tool(DropJunctions(net, S), [op |-> "drop_junctions", js |-> S])
DropElOp == \E S \in SUBSET JLabs(net) : S # {} /\ Cardinality(S) <= 2 /\
        Tool(DropElementsAtJ(net, S), [op |-> "drop_elements_at_junctions", js |-> S])
DropPOp == \E P \in SUBSET Labs(net, "pipe") : P # {} /\
        Tool(DropPipes(net, P), [op |-> "drop_pipes", ps |-> P])
FuseOp == \E j1 \in JLabs(net), J2 \in SUBSET JLabs(net) : J2 # {} /\ J2 # {j1} /\ Cardinality(J2) <= 2 /\
        Tool(Fuse(net, j1, J2), [op |-> "fuse_junctions", j1 |-> j1, j2 |-> J2])
SelectOp == \E S \in SUBSET JLabs(net) : S # {} /\
        Tool(Select(net, S), [op |-> "select_subnet", js |-> S])

(* ---- creation (C16): valid and invalid arguments ---- *)
Refs == JLabs(net) \cup {9}                 \* 9 never exists
Idx(t) == {-1, 9} \cup TblLabs(net, t)         \* auto, free, taken
Created(n2, r, ok) == /\ net' = (IF ok THEN n2 ELSE net) /\ serial' = (IF ok THEN serial + 1 ELSE serial)
                      /\ Log([r EXCEPT !.ok = ok]) /\ last' = r.op /\ UNCHANGED base
Lab(t, l) == IF l = -1 THEN NextFree(net, t) ELSE l
CreateJ == \E l \in Idx("junction"), g \in {"none", "ok", "bad"} :
    Created([net EXCEPT !.J = Append(@, JR(Lab("junction", l), serial))],
            [op |-> "create_junction", idx |-> l, geo |-> g, ok |-> TRUE], GuardJunction(net, l, g))
(* heat consumer: exactly two of (qext, mdot, deltat, treturn), not deltat together with treturn *)
CreateHC == \E l \in {-1}, a \in Refs, b \in Refs, sp \in HCSpecs :
    Created([net EXCEPT !.E = Append(@, ER("heat_consumer", Lab("heat_consumer", l), a, b, "", 0, serial))],
            [op |-> "create_heat_consumer", idx |-> l, a |-> a, b |-> b, spec |-> sp, ok |-> TRUE],
            GuardBranch(net, "heat_consumer", l, a, b) /\ HCSpecOK(sp))
(* bulk creation: n rows at once; equivalent to n single creations *)
BulkRows(t, n, a, b, badpos, l0) ==
    [k \in 1..n |-> IF t = "junction" THEN JR(l0 + k - 1, serial + k - 1)
                    ELSE IF t \in NodeElTables THEN NR(t, l0 + k - 1, IF k = badpos THEN 9 ELSE a, "", serial + k - 1)
                    ELSE ER(t, l0 + k - 1, IF k = badpos THEN 9 ELSE a, b, IF t = "valve" THEN "ju" ELSE "", 0, serial + k - 1)]
CreateBulk == \E t \in {"junction", "pipe", "valve", "sink", "flow_control", "heat_exchanger"} :
              \E n \in {1, 3}, a \in JLabs(net), b \in JLabs(net), badpos \in {0, 2}, im \in {"auto", "free", "taken"},
                 pat \in {"scalar", "list", "partial"} :
    LET l0 == IF im = "auto" THEN NextFree(net, t) ELSE IF im = "free" THEN 11 ELSE Max(TblLabs(net, t) \cup {0})
        rows == BulkRows(t, n, a, b, IF badpos > n THEN 0 ELSE badpos, l0)
        ok == /\ (t = "junction" \/ badpos = 0 \/ badpos > n \/ 9 \in JLabs(net))      \* the odd reference 9 usually does not exist
              /\ (im = "auto" \/ \A k \in 0..(n - 1) : FreeLab(net, t, l0 + k))      \* explicit indices must all be free
    IN /\ net' = (IF ~ok THEN net ELSE IF t = "junction" THEN [net EXCEPT !.J = @ \o rows]
                  ELSE IF t \in NodeElTables THEN [net EXCEPT !.N = @ \o rows] ELSE [net EXCEPT !.E = @ \o rows])
       /\ serial' = (IF ok THEN serial + n ELSE serial)
       /\ Log([op |-> "create_bulk", tbl |-> t, n |-> n, a |-> a, b |-> b, badpos |-> IF badpos > n THEN 0 ELSE badpos,
                idxmode |-> im, l0 |-> l0, pat |-> pat, ok |-> ok])
       /\ last' = "create_bulk" /\ UNCHANGED base
CreateB == \E t \in {"pipe", "flow_control", "heat_exchanger"} : \E l \in Idx(t), a \in Refs, b \in Refs :
    Created([net EXCEPT !.E = Append(@, ER(t, Lab(t, l), a, b, "", 0, serial))],
            [op |-> "create_branch", tbl |-> t, idx |-> l, a |-> a, b |-> b, ok |-> TRUE], GuardBranch(net, t, l, a, b))
CreateV == \E l \in Idx("valve"), j \in Refs, el \in Refs \cup Labs(net, "pipe"), et \in {"ju", "pi", "xx"} :
    Created([net EXCEPT !.E = Append(@, ER("valve", Lab("valve", l), j, el, et, 0, serial))],
            [op |-> "create_valve", idx |-> l, j |-> j, el |-> el, et |-> et, ok |-> TRUE], GuardValve(net, l, j, el, et))
CreateN == \E t \in {"sink", "ext_grid"} : \E l \in Idx(t), j \in Refs :
    Created([net EXCEPT !.N = Append(@, NR(t, Lab(t, l), j, IF t = "ext_grid" THEN "pt" ELSE "", serial))],
            [op |-> "create_nodeel", tbl |-> t, idx |-> l, j |-> j, ok |-> TRUE], GuardNodeEl(net, t, l, j))

Finish == /\ EmitOn /\ Len(hist) = MaxOps
          /\ PrintT(ToJson([vp |-> "EDIT", base |-> base, hist |-> hist])) /\ UNCHANGED vars

Next == \/ /\ Len(hist) < MaxOps
           /\ \/ ("reindex" \in OpKinds /\ (ReindexOp \/ ContOp \/ ContAllOp))
              \/ ("drop" \in OpKinds /\ (DropJOp \/ DropElOp \/ DropPOp))
              \/ ("fuse" \in OpKinds /\ FuseOp)
              \/ ("select" \in OpKinds /\ SelectOp)
              \/ ("create" \in OpKinds /\ (CreateJ \/ CreateB \/ CreateV \/ CreateN \/ CreateHC))
              \/ ("bulk" \in OpKinds /\ CreateBulk)
        \/ Finish
Spec == Init /\ [][Next]_vars

(* ---- what every operation must preserve ---- *)
InvRefOK == RefOK(net)
InvUnique == LabelsUnique(net)
InvPipeValves == \A v \in ERows(net) : IsPipeValve(v) => PipeValveAttached(net, v)
(* relabelling keeps every element (by identity) and changes labels only *)
RelabelKeepsIds == [][last' \in {"reindex", "continuous", "continuous_all"} => RowIds(net') = RowIds(net)]_vars
Emit == EmitOn => PrintT(ToJson([vp |-> "EDIT", base |-> base, hist |-> hist]))
=============================================================================
