------------------------------- MODULE GenLib -------------------------------
(***************************************************************************)
(* Enumeration of the case analysis of the property / pump / mixture        *)
(* functions (class x operation x argument shape x position of the          *)
(* arguments relative to the table) and model-level laws of the reference.  *)
(***************************************************************************)
EXTENDS PPLib, TLC, Json

VARIABLES c
Props == {[cls |-> "const", c |-> <<7, 2>>],
          [cls |-> "linear", slope |-> <<-1, 2>>, offset |-> <<5, 1>>], [cls |-> "linear", slope |-> <<3, 1>>, offset |-> <<0, 1>>],
          (* `given`: the order in which the table rows are handed over (the meaning of a table does not depend on it) *)
          [cls |-> "inter", xs |-> <<0, 2, 6>>, ys |-> <<1, 5, 3>>, given |-> "ascending"],
          [cls |-> "inter", xs |-> <<-4, 0, 4, 8>>, ys |-> <<8, 0, 4, 4>>, given |-> "ascending"],
          [cls |-> "inter", xs |-> <<-4, 0, 4, 8>>, ys |-> <<8, 0, 4, 4>>, given |-> "descending"],
          [cls |-> "inter", xs |-> <<0, 2, 6>>, ys |-> <<1, 5, 3>>, given |-> "shuffled"],
          [cls |-> "inter", xs |-> <<2, 4>>, ys |-> <<3, 9>>, given |-> "ascending"]}
Xs == {<<-6, 1>>, <<-1, 1>>, <<0, 1>>, <<1, 1>>, <<2, 1>>, <<3, 1>>, <<5, 1>>, <<6, 1>>, <<7, 2>>, <<10, 1>>, <<-5, 2>>}
Shapes == {"scalar", "list", "ndarray", "series"}
Pumps == {<<<<6, 1>>, <<-1, 10>>, <<-1, 100>>>>, <<<<3, 1>>, <<0, 1>>, <<-1, 50>>>>, <<<<2, 1>>, <<1, 10>>>>}
Qs == {<<-20, 1>>, <<-1, 2>>, <<0, 1>>, <<5, 1>>, <<10, 1>>, <<20, 1>>, <<40, 1>>}
Fracs == {<<<<1, 2>>, <<1, 2>>>>, <<<<1, 4>>, <<3, 4>>>>, <<<<1, 5>>, <<3, 10>>, <<1, 2>>>>, <<<<1, 1>>>>}
Masses == <<<<16, 1>>, <<4, 1>>, <<25, 1>>>>

Cases ==
    {[kind |-> "value", p |-> p, shape |-> sh, xs |-> <<x1, x2>>] : p \in Props, sh \in Shapes, x1 \in Xs, x2 \in {<<0, 1>>, <<5, 1>>}}
    \cup {[kind |-> "integral", p |-> p, shape |-> sh, lo |-> lo, hi |-> hi] : p \in Props, sh \in {"scalar", "ndarray", "series"}, lo \in Xs, hi \in Xs}
    \cup {[kind |-> "pump", cs |-> cs, shape |-> sh, qs |-> <<q1, q2>>] : cs \in Pumps, sh \in {"scalar", "ndarray"}, q1 \in Qs, q2 \in Qs}
    \cup {[kind |-> "mixture", x |-> x] : x \in Fracs}

Init == c \in Cases
Next == UNCHANGED c
Spec == Init /\ [][Next]_c

(* ---- laws of the reference itself ---- *)
InvIntegral == c.kind = "integral" =>
    /\ REq(Integral(c.p, c.lo, c.hi), RSub(R(0), Integral(c.p, c.hi, c.lo)))                         \* antisymmetric
    /\ \A m \in Xs : REq(RAdd(Integral(c.p, c.lo, m), Integral(c.p, m, c.hi)), Integral(c.p, c.lo, c.hi))   \* additive
    /\ REq(Integral(c.p, c.lo, c.lo), R(0))
InvTableReproduced == (c.kind = "value" /\ c.p.cls = "inter") =>
    \A i \in DOMAIN c.p.xs : REq(Val(c.p, R(c.p.xs[i])), R(c.p.ys[i]))
InvPump == c.kind = "pump" => \A i \in DOMAIN c.qs :
    /\ RLe(R(0), PumpLift(c.cs, c.qs[i]))
    /\ (RLt(c.qs[i], R(0)) => REq(PumpLift(c.cs, c.qs[i]), R(0)))
InvMixture == c.kind = "mixture" =>
    LET n == Len(c.x)
        M == SubSeq(Masses, 1, n)
        w == MassFractions(M, c.x)
    IN /\ REq(RSum(w), R(1))                                                                \* fractions sum to one
       /\ REq(MolarMassFromMass(M, w), MolarMassFromMolar(M, c.x))                          \* molar and mass form agree
       /\ \A i \in 1..n : RLe(R(0), w[i]) /\ RLe(w[i], R(1))
Emit == PrintT(ToJson([vp |-> "LIB", c |-> c]))
=============================================================================
