------------------------------- MODULE PPMulti -------------------------------
(***************************************************************************)
(* Multi-energy coupling: conversion laws of the coupling controllers as    *)
(* exact rationals.  A gas with heating value h kWh/kg carries              *)
(* h * 3600 / 1000 MW per kg/s.                                             *)
(*  P2G:            mdot_source = p_mw * scaling * eff / (h * 3.6)           *)
(*  G2P gas-led:    p_mw        = mdot_sink * scaling * (h * 3.6) * eff      *)
(*  G2P power-led:  mdot_sink   = p_mw * scaling / ((h * 3.6) * eff)         *)
(*  G2G:            mdot_source2 = mdot_sink1 * scaling * (h1 / h2) * eff    *)
(***************************************************************************)
EXTENDS Rat, Sequences, FiniteSets

MWperKgps(h) == RDiv(RMul(h, R(36)), R(10))       \* h * 3.6
P2G(p, sc, eff, h) == RDiv(RMul(RMul(p, sc), eff), MWperKgps(h))
G2PGas(m, sc, eff, h) == RMul(RMul(RMul(m, sc), MWperKgps(h)), eff)
G2PPower(p, sc, eff, h) == RDiv(RMul(p, sc), RMul(MWperKgps(h), eff))
G2G(m, sc, eff, h1, h2) == RMul(RMul(RMul(m, sc), RDiv(h1, h2)), eff)
Written(k) ==       \* the value the controller of configuration k must write
    IF k.kind = "P2G" THEN P2G(k.inp, k.sc, k.eff, k.h)
    ELSE IF k.kind = "G2P_gas" THEN G2PGas(k.inp, k.sc, k.eff, k.h)
    ELSE IF k.kind = "G2P_power" THEN G2PPower(k.inp, k.sc, k.eff, k.h)
    ELSE G2G(k.inp, k.sc, k.eff, k.h, k.h2)
=============================================================================
