------------------------------- MODULE GenLoop -------------------------------
(***************************************************************************)
(* Designed district-heating loops (C11, feeders of C10):                   *)
(*  circulation pump (flow junction F at 360 K) -> supply pipe (decay fs)   *)
(*  -> junction S -> consumers in parallel (heat consumers in the five      *)
(*  specification modes, heat exchangers) -> junction R -> return pipe      *)
(*  (decay fr) -> pump return.  Constant cp = 4000.                         *)
(* The scenario fixes mass flow m and temperature drop for every consumer;  *)
(* what the user prescribes depends on the mode, the rest is derived.       *)
(***************************************************************************)
EXTENDS PPRefLoop, TLC, Json


VARIABLE l
Loops == {[fs |-> fs, fr |-> fr, te |-> te, pump |-> pu, cons |-> cs, p2 |-> p2] :
            fs \in {1, 2}, fr \in {1, 3}, te \in {1, 2}, pu \in {"pressure", "mass"}, p2 \in {0, 1},
            cs \in UNION {[1..n -> [mode : Modes, m : {1, 2}, dT : {10, 20}]] : n \in 1..2}}
(* a mass-flow pump needs a loop whose flow is not prescribed by the consumers: heat exchangers only *)
Feasible(x) == /\ (x.pump = "mass" => \A i \in DOMAIN x.cons : x.cons[i].mode = "HX")
               /\ (x.pump = "pressure" => \A i \in DOMAIN x.cons : x.cons[i].mode # "HX")
               /\ (x.p2 = 1 => (x.pump = "pressure" /\ MTot(x) >= 2))
Init == l \in {x \in Loops : Feasible(x)}
Next == UNCHANGED l
Spec == Init /\ [][Next]_l

(* model-level law: pump heat = consumers + pipe losses (energy closure of the reference) *)
InvEnergy == REq(RAdd(PumpHeat(l), Pump2Heat(l)), RAdd(SumQ(l, Len(l.cons)), RAdd(LossSupply(l), LossReturn(l))))
InvTemps == RLe(TRet(l), R(TFLOW)) /\ RLe(R(AmbK(l.te) - 21), TRet(l))
Emit == PrintT(ToJson([vp |-> "LOOP", l |-> l]))

=============================================================================
