SPECIFICATION Spec
INVARIANT InvEqualTemps
INVARIANT InvMixBetween
INVARIANT InvNoDuty
CHECK_DEADLOCK FALSE
