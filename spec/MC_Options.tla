------------------------------ MODULE MC_Options ------------------------------
(***************************************************************************)
(* The option layers as a state machine: the user stores options            *)
(* (set_user_pf_options, with or without reset), calculations are started   *)
(* with call arguments.  Model-level properties of Resolve are checked on   *)
(* every reachable state; every distinct state is emitted with a            *)
(* representative history for replay into init_options.                     *)
(***************************************************************************)
EXTENDS PPOptions, Json

CONSTANTS Groups,          \* set of key groups; one group is active per behaviour
          NumbaChoices, MaxOps, MaxLayerKeys, EmitOn

VARIABLES group, numba, user, inforce, hist
vars == <<group, numba, user, inforce, hist>>

ValsOf(k) ==
    IF k \in {"only_update_hydraulic_matrix", "reuse_internal_data", "use_numba", "error_flag",
              "check_connectivity", "quit_on_inconsistency_connectivity", "calc_compression_power",
              "transient", "nonlinear_method"}
    THEN {"d", "a"} ELSE {"d", "a", "b"}

(* all layers over the active group *)
Layers(G) == UNION {[S -> {"d", "a", "b"}] : S \in SUBSET G}
LegalLayer(L) == \A k \in DOMAIN L : L[k] \in ValsOf(k)

Init == /\ group \in Groups /\ numba \in NumbaChoices
        /\ user = EmptyLayer /\ inforce = EmptyLayer /\ hist = <<>>

(* set_user_pf_options(net, reset=TRUE, **L) *)
SetUserReset(L) ==
    /\ user' = L
    /\ hist' = Append(hist, [op |-> "reset", kv |-> L])
    /\ UNCHANGED <<group, numba, inforce>>
(* set_user_pf_options(net, **L): update *)
SetUserUpdate(L) ==
    /\ user' = [k \in DOMAIN user \cup DOMAIN L |-> IF k \in DOMAIN L THEN L[k] ELSE user[k]]
    /\ hist' = Append(hist, [op |-> "update", kv |-> L])
    /\ UNCHANGED <<group, numba, inforce>>
(* pipeflow(net, **K): the options in force are Resolve(K, user); user and defaults untouched *)
Call(K) ==
    /\ inforce' = Resolve(K, user, numba)
    /\ hist' = Append(hist, [op |-> "call", kv |-> K])
    /\ UNCHANGED <<group, numba, user>>

LegalLayersOf == [G \in Groups |-> {L \in Layers(G) : LegalLayer(L) /\ Cardinality(DOMAIN L) <= MaxLayerKeys}]    \* constant: evaluated once
(* simulation mode: TLC evaluates invariants on all successors, so behaviours are emitted by an  *)
(* explicit final step instead (taken once per generated behaviour)                            *)
Finish == /\ EmitOn /\ Len(hist) = MaxOps
          /\ PrintT(ToJson([vp |-> "OPT", numba |-> numba, hist |-> hist]))
          /\ UNCHANGED vars
Next == \/ /\ Len(hist) < MaxOps
           /\ \E L \in LegalLayersOf[group] : SetUserReset(L) \/ SetUserUpdate(L) \/ Call(L)
        \/ Finish
Spec == Init /\ [][Next]_vars

View == <<group, numba, user, inforce, Len(hist)>>

(* ---------------- model-level properties of the resolution ---------------- *)
LastIsCall == hist # <<>> /\ hist[Len(hist)].op = "call"
LastK == hist[Len(hist)].kv
Known(k) == k \in DefaultKeys \ (StageKeys \cup {"reuse_internal_data", "use_numba", "mode"})

(* call > user > default for every key without coupling *)
InvPrecedence == LastIsCall =>
    \A k \in DOMAIN inforce : Known(k) =>
        inforce[k] = (IF k \in DOMAIN LastK THEN LastK[k] ELSE IF k \in DOMAIN user THEN user[k] ELSE "d")
(* stage limits: explicit call > call iter > explicit user > user iter > default *)
InvStage == LastIsCall =>
    \A k \in StageKeys :
        inforce[k] = (IF k \in DOMAIN LastK THEN LastK[k]
                      ELSE IF "iter" \in DOMAIN LastK THEN LastK["iter"]
                      ELSE IF k \in DOMAIN user THEN user[k]
                      ELSE IF "iter" \in DOMAIN user THEN user["iter"] ELSE "d")
(* every default key is resolved, unknown keys are carried through, excluded keys never *)
InvDomain == LastIsCall =>
    /\ DefaultKeys \subseteq DOMAIN inforce
    /\ DOMAIN inforce \cap Excluded = {}
    /\ \A k \in (DOMAIN LastK \cup DOMAIN user) \ Excluded : k \in DOMAIN inforce
(* couplings *)
InvCouplings == LastIsCall =>
    /\ (BoolTrue("reuse_internal_data", inforce["reuse_internal_data"])
            => BoolTrue("only_update_hydraulic_matrix", inforce["only_update_hydraulic_matrix"]))
    /\ inforce["mode"] # "a"
    /\ (~numba => ~BoolTrue("use_numba", inforce["use_numba"]))
(* a call never changes what is stored *)
CallPure == [][(inforce' # inforce) => user' = user]_vars

Emit == EmitOn => PrintT(ToJson([vp |-> "OPT", numba |-> numba, hist |-> hist]))

(* ---------------- constants for configurations ---------------- *)
GIter == {"iter", "max_iter_hyd", "max_iter_therm", "max_iter_bidirect"}
GPlain == {"tol_p", "friction_model", "unknown_key", "interactive_plotting"}
GCoupl == {"only_update_hydraulic_matrix", "reuse_internal_data", "mode", "use_numba"}
GSingles == {{k} : k \in AllDefaultKeys \cup {"t_start"}}
GroupsAll == {GIter, GPlain, GCoupl} \cup GSingles
GroupsCoupl == {GCoupl}
GroupsMix == {{"iter", "max_iter_hyd", "tol_m", "mode", "only_update_hydraulic_matrix", "reuse_internal_data"}}
GroupsSim == GroupsAll \cup GroupsMix
=============================================================================
