----------------------------- MODULE Trace_Therm -----------------------------
(***************************************************************************)
(* C10 / C11 (designed family): observed temperatures and heat duties of    *)
(* the real solver against the exact reference PPRefTherm.                  *)
(* Observations <<kind, value>>: kind 0 number; temperatures in 1e-3 K,     *)
(* heat in W, mass flow in 1e-6 kg/s.                                       *)
(***************************************************************************)
EXTENDS PPRefTherm, Json, IOUtils, TLC, SequencesExt

Cases == ndJsonDeserialize(IOEnv.TRACE_FILE)
VARIABLES ci, bad
vars == <<ci, bad>>

TolT == 2       \* 1e-3 K
Milli(q) == (q[1] * 1000) \div q[2]
NearT(o, q) == o[1] = 0 /\ Abs(o[2] - Milli(q)) <= TolT
S(c) == [c.s EXCEPT !.hm = [i \in {1, 2, 3} |-> c.s.hm[ToString(i)]], !.pamb = [i \in {1, 2, 3} |-> c.s.pamb[ToString(i)]]]

(* a branch with declared orientation x -> y (reversed iff rev), fluid entering at node `up`, leaving with `out` *)
BranchT(sc, o, x, y, rev, out, tag, kind) ==
    LET tx == T(sc, x)  ty == T(sc, y)
        tfrom == IF rev THEN ty ELSE tx
        tto == IF rev THEN tx ELSE ty
    IN (IF ~NearT(o.tf, tfrom) \/ ~NearT(o.tt, tto) THEN {<<"THERM.end_temperature", kind, tag>>} ELSE {})
       \cup (IF ~NearT(o.tout, out) THEN {<<"THERM.outlet_temperature", kind, tag>>} ELSE {})

MinT(sc) == LET A == {AmbK(sc.nodes[k].te) : k \in {k \in Nodes(sc) \ {1} : sc.nodes[k].kind = "pipe" /\ sc.nodes[k].fd # 1}}
                      \cup {AmbK(sc.chords[i].te) : i \in {i \in DOMAIN sc.chords : sc.chords[i].fd # 1}} \cup {sc.t0}
            IN CHOOSE m \in A : \A x \in A : m <= x
MaxT(sc) == LET A == {AmbK(sc.nodes[k].te) : k \in {k \in Nodes(sc) \ {1} : sc.nodes[k].kind = "pipe" /\ sc.nodes[k].fd # 1}}
                      \cup {AmbK(sc.chords[i].te) : i \in {i \in DOMAIN sc.chords : sc.chords[i].fd # 1}} \cup {sc.t0}
            IN CHOOSE m \in A : \A x \in A : m >= x
NoHeatSource(sc) == \A k \in Nodes(sc) : sc.nodes[k].dT = 0

CaseClauses(c) ==
    LET sc == S(c) IN
    IF c.outcome # "returned" THEN {<<"THERM.not_returned", c.outcome, c.mode>>} ELSE
    UNION {
      {<<"THERM.junction_temperature", "junction", ToString(k)>> : k \in {k \in Nodes(sc) : ~NearT(c.obs.nodes[k].t, T(sc, k))}},
      UNION {BranchT(sc, c.obs.branches[k - 1], sc.nodes[k].par, k, sc.nodes[k].rev, OutTree(sc, k), ToString(k), sc.nodes[k].kind)
                : k \in Nodes(sc) \ {1}},
      UNION {BranchT(sc, c.obs.chords[i], sc.chords[i].a, sc.chords[i].b, sc.chords[i].rev, OutChord(sc, i), "c" \o ToString(i), "pipe")
                : i \in DOMAIN sc.chords},
      (* without heat sources every temperature lies between the coldest and the warmest of feed and ambient *)
      (IF NoHeatSource(sc) /\ \E k \in Nodes(sc) : c.obs.nodes[k].t[1] # 0 \/ c.obs.nodes[k].t[2] < MinT(sc) * 1000 - TolT
                                                    \/ c.obs.nodes[k].t[2] > MaxT(sc) * 1000 + TolT
       THEN {<<"THERM.bounds", "", "">>} ELSE {}),
      (* a heat exchanger reports the heat it was given and qext = m cp (t_from - t_outlet) *)
      {<<"THERM.heat_duty", "heat_exchanger", ToString(k)>> : k \in {k \in Nodes(sc) \ {1} : sc.nodes[k].kind = "heat_exchanger" /\
            ~(c.obs.branches[k - 1].q[1] = 0 /\ Abs(c.obs.branches[k - 1].q[2] - CP * Flow(sc, k) * sc.nodes[k].dT) <= 1)}}
    }

Init == ci = 0 /\ bad = {}
Step == /\ ci < Len(Cases) /\ ci' = ci + 1
        /\ LET c == Cases[ci + 1]  f == CaseClauses(c) IN
           /\ bad' = f
           /\ IF f = {} THEN TRUE ELSE PrintT(ToJson([vp |-> "FAIL", id |-> c.id, clauses |-> SetToSeq(f)]))
Spec == Init /\ [][Step]_vars
Post == /\ PrintT(ToJson([vp |-> "SUMMARY", cases |-> Len(Cases)]))
        /\ TLCGet("stats").diameter - 1 = Len(Cases)
=============================================================================
