---------------------------- MODULE Trace_Options ----------------------------
(***************************************************************************)
(* Trace validation for option resolution: every recorded history of        *)
(* set_user_pf_options / init_options calls on a real net is stepped        *)
(* through the SAME state machine as MC_Options (layers, Resolve), and the  *)
(* logged resolved options, stored user options and default-dictionary      *)
(* digest are compared with the specification's state after every step.     *)
(***************************************************************************)
EXTENDS PPOptions, Json, IOUtils, TLC, SequencesExt

Cases == ndJsonDeserialize(IOEnv.TRACE_FILE)

VARIABLES ci, ei, user, bad
vars == <<ci, ei, user, bad>>

Upd(U, L) == [k \in DOMAIN U \cup DOMAIN L |-> IF k \in DOMAIN L THEN L[k] ELSE U[k]]

Keys(f) == DOMAIN f
(* first key on which two layers differ (for the report) *)
DiffKeys(f, g) == {k \in Keys(f) \cup Keys(g) : k \notin Keys(f) \/ k \notin Keys(g) \/ f[k] # g[k]}

Init == ci = 1 /\ ei = 1 /\ user = EmptyLayer /\ bad = {}

StepEvent ==
    /\ ci <= Len(Cases)
    /\ ei <= Len(Cases[ci].events)
    /\ LET c == Cases[ci]
           ev == c.events[ei]
           u2 == IF ev.op = "reset" THEN ev.kv ELSE IF ev.op = "update" THEN Upd(user, ev.kv) ELSE user
           expect == Resolve(ev.kv, user, c.numba)
           f == (IF DiffKeys(ev.user, u2) # {} THEN {<<"C14.user_layer", ev.op>>} ELSE {})
                \cup (IF ev.defdig # c.defdig0 THEN {<<"C14.defaults_mutated", ev.op>>} ELSE {})
                \cup (IF ev.op = "call" /\ DiffKeys(ev.inforce, expect) # {}
                      THEN {<<"C14.resolve", k>> : k \in DiffKeys(ev.inforce, expect)} ELSE {})
       IN /\ user' = u2
          /\ bad' = f
          /\ IF f = {} THEN TRUE ELSE PrintT(ToJson([vp |-> "FAIL", id |-> c.id, ev |-> ei, clauses |-> f]))
          /\ ei' = ei + 1 /\ ci' = ci
NextCase ==
    /\ ci <= Len(Cases) /\ ei > Len(Cases[ci].events)
    /\ ci' = ci + 1 /\ ei' = 1 /\ user' = EmptyLayer /\ bad' = {}
Next == StepEvent \/ NextCase
Spec == Init /\ [][Next]_vars

TotalEvents == FoldLeft(LAMBDA acc, c : acc + Len(c.events), 0, Cases)
Post == /\ PrintT(ToJson([vp |-> "SUMMARY", cases |-> Len(Cases), events |-> TotalEvents,
                          diameter |-> TLCGet("stats").diameter]))
        /\ TLCGet("stats").diameter = TotalEvents + Len(Cases) + 1
=============================================================================
