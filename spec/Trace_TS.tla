------------------------------ MODULE Trace_TS ------------------------------
(***************************************************************************)
(* C13: recorded time-series runs against the loop semantics of MC_TS.      *)
(* Per step the harness logs the digest of what the output writer recorded  *)
(* for that step (or "nan" if every logged value is NaN) and the digest of  *)
(* a stand-alone pipeflow on a fresh net carrying that step's inputs.       *)
(***************************************************************************)
EXTENDS Integers, Sequences, FiniteSets, TLC, Json, IOUtils, SequencesExt

Cases == ndJsonDeserialize(IOEnv.TRACE_FILE)
VARIABLES ci, bad
vars == <<ci, bad>>

FirstX(p) == LET S == {i \in DOMAIN p : p[i] = "X"} IN IF S = {} THEN 0 ELSE CHOOSE i \in S : \A k \in S : i <= k
IsTransient(c) == "transient" \in DOMAIN c /\ c.transient
(* signature of the clauses: "" for stationary series, "transient" for transient ones (their `logged` / `standalone` digests cover the *)
(* hydraulic results only: pressures and mass flows of a constant-property liquid do not depend on the evolving temperatures)           *)
Sig(c, x) == IF IsTransient(c) THEN "transient" ELSE x
CaseClauses(c) ==
    LET p == c.profile
        fx == FirstX(p)
        mustAbort == fx # 0 /\ ~c.cod
    IN (IF mustAbort /\ ~c.raised THEN {<<"C13.no_abort_without_continue", Sig(c, "")>>} ELSE {})
       \cup (IF ~mustAbort /\ c.raised THEN {<<"C13.aborted", c.exc>>} ELSE {})
       \cup {<<"C13.step_differs_from_standalone", Sig(c, p[i])>> : i \in {i \in DOMAIN p :
                 (~mustAbort \/ i < fx) /\ ~c.raised /\ p[i] # "X" /\ c.steps[i].logged # c.steps[i].standalone}}
       \cup {<<"C13.step_differs_from_standalone", Sig(c, p[i])>> : i \in {i \in DOMAIN p :
                 mustAbort /\ i < fx /\ c.steps[i].logged # c.steps[i].standalone}}
       \cup {<<"C13.diverged_step_not_reported", Sig(c, "")>> : i \in {i \in DOMAIN p :
                 ~c.raised /\ p[i] = "X" /\ ~c.steps[i].flagged}}      \* the output writer's failure flag of that step
       \cup {<<"C13.feasible_step_flagged", Sig(c, p[i])>> : i \in {i \in DOMAIN p : ~c.raised /\ p[i] # "X" /\ c.steps[i].flagged}}
       (* MC_TS.InvPrefix on the code: the series over the profile without its last step logged the same first steps (hydraulic and thermal) *)
       \cup {<<"C13.step_depends_on_later_steps", Sig(c, p[i])>> : i \in {i \in DOMAIN p :
                 IsTransient(c) /\ ~c.raised /\ c.steps[i].pre_hyd # "none" /\ (\A k \in 1..i : p[k] # "X")
                 /\ (c.steps[i].pre_hyd # c.steps[i].logged \/ c.steps[i].pre_th # c.steps[i].th)}}
       (* MC_TS.InvHydRepeat: equal inputs, equal hydraulic results within one series *)
       \cup {<<"C13.equal_inputs_differ", Sig(c, p[i])>> : i \in {i \in DOMAIN p : ~c.raised /\ p[i] # "X" /\
                 \E k \in DOMAIN p : k < i /\ p[k] = p[i] /\ (~mustAbort \/ i < fx) /\ c.steps[k].logged # c.steps[i].logged}}

Init == ci = 0 /\ bad = {}
Step == /\ ci < Len(Cases) /\ ci' = ci + 1
        /\ LET c == Cases[ci + 1]  f == CaseClauses(c) IN
           /\ bad' = f
           /\ IF f = {} THEN TRUE ELSE PrintT(ToJson([vp |-> "FAIL", id |-> c.id, clauses |-> SetToSeq(f)]))
Spec == Init /\ [][Step]_vars
Post == /\ PrintT(ToJson([vp |-> "SUMMARY", cases |-> Len(Cases)]))
        /\ TLCGet("stats").diameter - 1 = Len(Cases)
=============================================================================
