----------------------------- MODULE MC_StdType -----------------------------
(***************************************************************************)
(* The standard-type library of a net as a state machine (C16 / C19).       *)
(*                                                                          *)
(* State: lib  = the pipe standard types of the net (name -> parameters),   *)
(*        pipes = the rows of net.pipe in creation order.                   *)
(* A type's parameters are a record [d, k, u] (inner diameter, roughness,   *)
(* heat-transfer coefficient; small integers standing for the values the    *)
(* harness uses).  Calls:                                                   *)
(*   create_std_type(name, data, overwrite)  - refused if the name exists   *)
(*        and overwrite is not set, or the required diameter is missing     *)
(*   delete_std_type(name)                   - refused if unknown           *)
(*   create_pipe(std_type, k_mm=?, u_w_per_m2k=?) - refused if unknown;      *)
(*        the row gets the type's parameters, the per-pipe overrides apply  *)
(*        to THIS row only                                                  *)
(*   create_pipe_from_parameters(d, k, u)    - a row without a type         *)
(*   change_std_type(row, name)              - the row takes the type's     *)
(*        parameters                                                        *)
(* Laws: the library changes only through create_std_type / delete_std_type *)
(* (never by creating or re-typing a pipe); a pipe created from a type      *)
(* carries that type's parameters as they are at that moment; a pipe        *)
(* created from a type equals the pipe created from that type's parameters. *)
(***************************************************************************)
EXTENDS PPStd, TLC, Json

CONSTANTS Names, DVals, KVals, UVals, MaxOps, EmitOn

VARIABLES lib, pipes, hist, last
vars == <<lib, pipes, hist, last>>

Data == [d : DVals \cup {NoVal}, k : KVals, u : UVals \cup {NoVal}]

Init == /\ lib = [n \in {"T1"} |-> [d |-> 80, k |-> 2, u |-> NoVal]]     \* one library type to start from
        /\ pipes = <<>> /\ hist = <<>> /\ last = "init"

Log(r) == hist' = Append(hist, r) /\ last' = r.op

CreateType == \E n \in Names, dt \in Data, ow \in BOOLEAN :
    LET ok == TypeAdmissible(lib, n, dt, ow) IN
    /\ lib' = IF ok THEN WithType(lib, n, dt) ELSE lib
    /\ pipes' = pipes
    /\ Log([op |-> "create_std_type", name |-> n, data |-> dt, overwrite |-> ow, ok |-> ok])
DeleteType == \E n \in Names :
    LET ok == n \in DOMAIN lib IN
    /\ lib' = IF ok THEN WithoutType(lib, n) ELSE lib
    /\ pipes' = pipes
    /\ Log([op |-> "delete_std_type", name |-> n, ok |-> ok])
CreatePipe == \E n \in Names, ko \in KVals \cup {NoVal}, uo \in UVals \cup {NoVal} :
    LET ok == n \in DOMAIN lib IN
    /\ pipes' = IF ok THEN Append(pipes, FromType(lib, n, ko, uo)) ELSE pipes
    /\ lib' = lib
    /\ Log([op |-> "create_pipe", name |-> n, k |-> ko, u |-> uo, ok |-> ok])
CreateFromParams == \E d \in DVals, k \in KVals, u \in UVals :
    /\ pipes' = Append(pipes, Row("", d, k, u)) /\ lib' = lib
    /\ Log([op |-> "create_pipe_from_parameters", d |-> d, k |-> k, u |-> u, ok |-> TRUE])
ChangeType == \E i \in DOMAIN pipes, n \in Names :
    LET ok == n \in DOMAIN lib
    IN /\ pipes' = IF ok THEN [pipes EXCEPT ![i] = Retyped(lib, pipes[i], n)] ELSE pipes
       /\ lib' = lib
       /\ Log([op |-> "change_std_type", row |-> i, name |-> n, ok |-> ok])

Finish == /\ EmitOn /\ Len(hist) = MaxOps
          /\ PrintT(ToJson([vp |-> "STD", hist |-> hist])) /\ UNCHANGED vars
Next == (Len(hist) < MaxOps /\ (CreateType \/ DeleteType \/ CreatePipe \/ CreateFromParams \/ ChangeType)) \/ Finish
Spec == Init /\ [][Next]_vars

(* the library is touched by the two library calls only *)
LibOnlyByLibCalls == [][last' \notin {"create_std_type", "delete_std_type"} => lib' = lib]_vars
(* existing rows are touched by change_std_type only, and only the addressed row *)
RowsStable == [][\A i \in DOMAIN pipes : (last' # "change_std_type" \/ hist'[Len(hist')].row # i) => pipes'[i] = pipes[i]]_vars
(* every typed row names an existing type or a type that was deleted / overwritten later - never parameters out of nowhere: *)
(* right after a typed creation without overrides the row equals the library entry                                          *)
InvFresh == (last = "create_pipe" /\ hist[Len(hist)].ok /\ hist[Len(hist)].k = NoVal /\ hist[Len(hist)].u = NoVal) =>
    LET r == pipes[Len(pipes)]  t == lib[r.std] IN r.d = t.d /\ r.k = t.k /\ r.u = t.u
(* a pipe from a type equals the pipe from that type's parameters (apart from the type name) *)
InvTypeEqualsParams == \A n \in DOMAIN lib :
    LET r == FromType(lib, n, NoVal, NoVal) IN [r EXCEPT !.std = ""] = Row("", lib[n].d, lib[n].k, lib[n].u)
Emit == EmitOn => PrintT(ToJson([vp |-> "STD", hist |-> hist]))
=============================================================================
