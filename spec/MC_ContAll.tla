----------------------------- MODULE MC_ContAll -----------------------------
(***************************************************************************)
(* toolbox.create_continuous_elements_index, implementation-shaped.         *)
(*                                                                          *)
(* The function collects the names of all element tables AND of their       *)
(* result tables in a Python SET and calls create_continuous_element_index  *)
(* for each name in the set's iteration order - which depends on the        *)
(* interpreter's string-hash seed.  That order is this model's              *)
(* nondeterminism: one action per table name, taken in any order.           *)
(*                                                                          *)
(* One step for name X (as coded):  sort table X by label; lookup = label   *)
(* -> start + rank; relabel X; if a table "res_" + X exists relabel it with *)
(* the same lookup - a label of it that is no key of the lookup is a        *)
(* KeyError.  For X = "res_T" there is no "res_res_T", so only the result   *)
(* table itself is sorted and relabelled.                                   *)
(*                                                                          *)
(* Impl = "coded"    : every name of the set is processed (pinned tree)     *)
(* Impl = "required" : a result table whose element table is in the set is  *)
(*                     left to its element table's step                     *)
(*                                                                          *)
(* Rows are <<id, label>>; a result row belongs to the element row with the *)
(* same id.  Property (C17): the call never fails, afterwards every table   *)
(* carries the labels start..start+n-1, and every result row carries the    *)
(* label of its element - for EVERY processing order.                       *)
(***************************************************************************)
EXTENDS Integers, Sequences, FiniteSets, TLC, Json

CONSTANTS Impl, Tables, LabelSets, Start, EmitOn

VARIABLES el, res, todo, err, order
vars == <<el, res, todo, err, order>>

Ids == 1..3
(* a table: function id -> label (the row order of the data frame is irrelevant after sort_index) *)
Perms(L) == {f \in [Ids -> L] : \A i, k \in Ids : f[i] = f[k] => i = k}
Rank(f, l) == Cardinality({i \in Ids : f[i] < l})
Lookup(f) == [l \in {f[i] : i \in Ids} |-> Start + Rank(f, l)]

ResName(t) == "res_" \o t
Names == Tables \cup {ResName(t) : t \in Tables}
IsRes(x) == x \notin Tables
Base(x) == CHOOSE t \in Tables : ResName(t) = x

Init == /\ el \in [Tables -> UNION {Perms(L) : L \in LabelSets}]
        /\ res = el                                   \* after a calculation the result tables carry the element labels
        /\ todo = Names /\ err = FALSE /\ order = <<>>

StepEl(t) ==
    LET lk == Lookup(el[t])
        bad == \E i \in Ids : res[t][i] \notin DOMAIN lk         \* get_indices: KeyError
    IN /\ el' = [el EXCEPT ![t] = [i \in Ids |-> lk[el[t][i]]]]
       /\ IF bad THEN err' = TRUE /\ res' = res
          ELSE err' = err /\ res' = [res EXCEPT ![t] = [i \in Ids |-> lk[res[t][i]]]]
StepRes(x) ==
    LET t == Base(x)  lk == Lookup(res[t])
    IN res' = [res EXCEPT ![t] = [i \in Ids |-> lk[res[t][i]]]] /\ UNCHANGED <<el, err>>

Skip(x) == Impl = "required" /\ IsRes(x) /\ Base(x) \in Tables
Step == /\ ~err /\ todo # {}
        /\ \E x \in todo :
             /\ todo' = todo \ {x} /\ order' = Append(order, x)
             /\ IF Skip(x) THEN UNCHANGED <<el, res, err>>
                ELSE IF IsRes(x) THEN StepRes(x) ELSE StepEl(x)
Finish == /\ EmitOn /\ (todo = {} \/ err)
          /\ PrintT(ToJson([vp |-> "CONT", order |-> order, err |-> err])) /\ UNCHANGED vars
Next == Step \/ Finish
Spec == Init /\ [][Next]_vars

Continuous(f) == {f[i] : i \in Ids} = Start..(Start + 2)
InvNoError == ~err
InvDone == (todo = {} /\ ~err) => \A t \in Tables : Continuous(el[t]) /\ res[t] = el[t]
(* results follow their elements at every step at which both tables of a pair have been processed or none *)
InvFollow == \A t \in Tables : (({t, ResName(t)} \cap todo = {}) /\ ~err) => res[t] = el[t]
=============================================================================
