----------------------------- MODULE PPRefTherm -----------------------------
(***************************************************************************)
(* Exact reference temperatures for the designed family (constant heat      *)
(* capacity cp = 4000 J/kgK): on top of a PPRefHyd scenario every pipe has  *)
(* a decay factor f in {1, 1/2, 3/4} (the heat-transfer coefficient is      *)
(* DERIVED from exp(-alpha pi D L / (cp m)) = f), an ambient temperature,    *)
(* every heat exchanger a temperature drop dT (its heat is cp m dT).         *)
(*   pipe outlet:  T_amb + (T_in - T_amb) f       (sections compose exactly) *)
(*   junction:     mass-flow weighted mean of the entering streams          *)
(*   feeder:       fixes the temperature of the fluid it feeds              *)
(* Temperatures are rationals (Rat) in kelvin.                              *)
(***************************************************************************)
EXTENDS PPRefHyd, Rat

Fac(fd) == IF fd = 1 THEN <<1, 1>> ELSE IF fd = 2 THEN <<1, 2>> ELSE <<3, 4>>
AmbK(te) == IF te = 1 THEN 283 ELSE 303
CP == 4000

(* temperature at the outlet of a branch entered at Tin *)
BranchOut(kind, fd, te, dT, Tin) ==
    IF kind = "pipe" THEN RAdd(R(AmbK(te)), RMul(RSub(Tin, R(AmbK(te))), Fac(fd)))
    ELSE IF kind = "heat_exchanger" THEN RSub(Tin, R(dT))
    ELSE Tin

(* streams entering node k: <<mass flow (> 0), upstream node, kind, fd, te, dT>> *)
InTree(s, k) == IF k # 1 /\ Flow(s, k) > 0
                THEN {<<Flow(s, k), s.nodes[k].par, s.nodes[k].kind, s.nodes[k].fd, s.nodes[k].te, s.nodes[k].dT>>} ELSE {}
InFromChildren(s, k) == {<<-Flow(s, c), c, s.nodes[c].kind, s.nodes[c].fd, s.nodes[c].te, s.nodes[c].dT>> :
                            c \in {c \in Children(s, k) : Flow(s, c) < 0}}
InChords(s, k) ==
    {<<s.chords[i].mc, s.chords[i].a, "pipe", s.chords[i].fd, s.chords[i].te, 0>> :
         i \in {i \in DOMAIN s.chords : s.chords[i].b = k /\ s.chords[i].mc > 0}}
    \cup {<<-s.chords[i].mc, s.chords[i].b, "pipe", s.chords[i].fd, s.chords[i].te, 0>> :
         i \in {i \in DOMAIN s.chords : s.chords[i].a = k /\ s.chords[i].mc < 0}}
Inflows(s, k) == InTree(s, k) \cup InFromChildren(s, k) \cup InChords(s, k)

RECURSIVE RSumSet(_, _)
RSumSet(f, S) == IF S = {} THEN R(0) ELSE LET x == CHOOSE x \in S : TRUE IN RAdd(f[x], RSumSet(f, S \ {x}))

RECURSIVE T(_, _)
T(s, k) ==
    IF k = 1 THEN R(s.t0)                     \* the feeder junction carries the feed temperature
    ELSE LET I == Inflows(s, k)
             num == RSumSet([x \in I |-> RMul(R(x[1]), BranchOut(x[3], x[4], x[5], x[6], T(s, x[2])))], I)
             den == SumF([x \in I |-> x[1]], I)
         IN RDiv(num, R(den))

(* all tree flows directed away from the feeder and nothing flows into it: the temperature field is then *)
(* determined by the feed temperature alone                                                              *)
ThermallyDetermined(s) ==
    /\ \A k \in Nodes(s) \ {1} : Flow(s, k) > 0
    /\ \A i \in DOMAIN s.chords : ~(s.chords[i].b = 1 /\ s.chords[i].mc > 0) /\ ~(s.chords[i].a = 1 /\ s.chords[i].mc < 0)

(* outlet temperature of tree branch k / chord i, and its inlet node *)
UpTree(s, k) == IF Flow(s, k) > 0 THEN s.nodes[k].par ELSE k
OutTree(s, k) == LET n == s.nodes[k] IN BranchOut(n.kind, n.fd, n.te, n.dT, T(s, UpTree(s, k)))
UpChord(s, i) == IF s.chords[i].mc > 0 THEN s.chords[i].a ELSE s.chords[i].b
OutChord(s, i) == LET c == s.chords[i] IN BranchOut("pipe", c.fd, c.te, 0, T(s, UpChord(s, i)))
=============================================================================
