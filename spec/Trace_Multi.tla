----------------------------- MODULE Trace_Multi -----------------------------
(* C20: coupled control runs against the conversion laws of PPMulti and the decoupled calculations (digests) *)
EXTENDS PPMulti, Json, IOUtils, TLC, SequencesExt
Cases == ndJsonDeserialize(IOEnv.TRACE_FILE)
VARIABLES ci, bad
vars == <<ci, bad>>
Q(x) == <<x[1], x[2]>>
Cfg(c) == [c.k EXCEPT !.inp = Q(@), !.sc = Q(@), !.eff = Q(@), !.h = Q(@), !.h2 = Q(@), !.eff2 = Q(@)]
CaseClauses(c) ==
    IF c.raised # "" THEN {<<"C20.raised", c.k.kind, c.raised>>} ELSE
    (IF \E i \in DOMAIN c.written : ~REq(Q(c.written[i]), Written(Cfg(c))) THEN {<<"C20.written_value", c.k.kind, "">>} ELSE {})
    \cup {<<"C20.member_net_differs_from_standalone", c.k.kind, r.net>> : r \in {r \in ToSet(c.nets) : r.coupled # r.standalone}}
    \cup (IF c.multinet_converged /\ \E r \in ToSet(c.nets) : ~r.converged THEN {<<"C20.converged_flag", c.k.kind, "">>} ELSE {})
    \cup (IF ~c.multinet_converged /\ \A r \in ToSet(c.nets) : r.converged THEN {<<"C20.not_converged_flag", c.k.kind, "">>} ELSE {})
    \cup {<<"C20.untouched_elements_changed", c.k.kind, "">> : x \in {1} \cap (IF c.others_same THEN {} ELSE {1})}
Init == ci = 0 /\ bad = {}
Step == /\ ci < Len(Cases) /\ ci' = ci + 1
        /\ LET c == Cases[ci + 1]  f == CaseClauses(c) IN
           /\ bad' = f
           /\ IF f = {} THEN TRUE ELSE PrintT(ToJson([vp |-> "FAIL", id |-> c.id, clauses |-> SetToSeq(f)]))
Spec == Init /\ [][Step]_vars
Post == /\ PrintT(ToJson([vp |-> "SUMMARY", cases |-> Len(Cases)]))
        /\ TLCGet("stats").diameter - 1 = Len(Cases)
=============================================================================
