SPECIFICATION Spec
CONSTANTS
  MaxJ = 3
  MaxE = 2
  MaxN = 1
  MaxPV = 1
  Kinds <- KindsCore
  NKinds <- NKindsCore
  EmitOn = FALSE
  TogJ = FALSE
VIEW View
INVARIANT InvWellFormed
INVARIANT InvFixpoint
INVARIANT InvSlackSupplied
INVARIANT InvNoSlackNoSupply
PROPERTY Monotone
CHECK_DEADLOCK FALSE
