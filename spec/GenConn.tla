------------------------------- MODULE GenConn -------------------------------
(***************************************************************************)
(* Generator / model of "which part of the net is supplied".                *)
(* A net is built up by creation steps and its status flags are toggled;    *)
(* every reachable state is a net description.  TLC (a) checks the model-   *)
(* level facts about the connectivity semantics on every state and (b)      *)
(* emits every distinct net so that the harness can run the real solver on  *)
(* it (spec -> code direction).                                             *)
(***************************************************************************)
EXTENDS PPConn, TLC, Json

CONSTANTS MaxJ, MaxE, MaxN, MaxPV, Kinds, NKinds, EmitOn, TogJ

VARIABLES net, last   \* last = the creation/toggle step that led here (history of length 1)

vars == <<net, last>>

BRow(t, l, a, b) == [tbl |-> t, lab |-> l, a |-> a, b |-> b, et |-> IF t = "valve" THEN "ju" ELSE "",
                     svc |-> TRUE, ca |-> TRUE, cj |-> IF t = "press_control" THEN b ELSE 0,
                     typ |-> IF t \in CircPumpTables THEN "pt" ELSE ""]

NextLab(t) == Cardinality(Rows(net, t)) + 1
NextNLab(t) == Cardinality(NERows(net, t)) + 1

Init == net = [J |-> <<>>, E |-> <<>>, N |-> <<>>] /\ last = "init"

AddJ == /\ Len(net.J) < MaxJ
        /\ net' = [net EXCEPT !.J = Append(@, [lab |-> Len(net.J) + 1, svc |-> TRUE])]
        /\ last' = "AddJ"

NonPV == {e \in ERows(net) : ~IsPipeValve(e)}
PVs == {e \in ERows(net) : IsPipeValve(e)}

AddB(t, a, b) ==
        /\ Cardinality(NonPV) < MaxE
        /\ a # b
        /\ net' = [net EXCEPT !.E = Append(@, BRow(t, NextLab(t), a, b))]
        /\ last' = "AddB"

AddPV(p, j) ==
        /\ Cardinality(PVs) < MaxPV
        /\ j \in {p.a, p.b}
        /\ net' = [net EXCEPT !.E = Append(@, [BRow("valve", NextLab("valve"), j, p.lab) EXCEPT !.et = "pi"])]
        /\ last' = "AddPV"

AddN(t, typ, j) ==
        /\ Len(net.N) < MaxN
        /\ net' = [net EXCEPT !.N = Append(@, [tbl |-> t, lab |-> NextNLab(t), j |-> j, svc |-> TRUE, typ |-> typ])]
        /\ last' = "AddN"

ToggleJ(i) == TogJ /\ net' = [net EXCEPT !.J[i].svc = ~@] /\ last' = "ToggleJ"
ToggleE(i) == net' = [net EXCEPT !.E[i].svc = ~@] /\ last' = "ToggleE"
ToggleCA(i) == /\ net.E[i].tbl \in {"flow_control", "press_control"}
               /\ net' = [net EXCEPT !.E[i].ca = ~@] /\ last' = "ToggleCA"
ToggleN(i) == net' = [net EXCEPT !.N[i].svc = ~@] /\ last' = "ToggleN"
(* a circulation pump created without a flow temperature is of type "p": it fixes the pressure like a "pt" one and feeds with the  *)
(* start temperature of its flow junction (same connectivity; only the temperature it imposes differs)                          *)
ToggleTyp(i) == /\ net.E[i].tbl \in CircPumpTables
                /\ net' = [net EXCEPT !.E[i].typ = IF @ = "pt" THEN "p" ELSE "pt"] /\ last' = "ToggleTyp"

Create ==
    \/ AddJ
    \/ \E t \in Kinds, a, b \in JLabs(net) : AddB(t, a, b)
    \/ \E p \in Rows(net, "pipe"), j \in JLabs(net) : AddPV(p, j)
    \/ \E k \in NKinds, j \in JLabs(net) : AddN(k[1], k[2], j)
Toggle ==
    \/ \E i \in DOMAIN net.J : ToggleJ(i)
    \/ \E i \in DOMAIN net.E : ToggleE(i) \/ ToggleCA(i) \/ ToggleTyp(i)
    \/ \E i \in DOMAIN net.N : ToggleN(i)
Next == Create \/ Toggle

Spec == Init /\ [][Next]_vars

(* ---- symmetry-free canonical view: row order does not matter ---- *)
View == <<JRows(net), ERows(net), NRows(net)>>

(* ---- model-level facts (checked on every state) ---- *)
InvWellFormed == WellFormed(net)
InvFixpoint == HydReached(net) = LeastClosed(net)         \* Closure really is the least fixpoint
InvSlackSupplied == \A j \in PFixJunctions(net) : JSvc(net, j) => j \in HydSupplied(net)
InvNoSlackNoSupply == HydSlacks(net) = {} => HydSupplied(net) = {}

(* switching something ON never shrinks, switching OFF never grows the supplied set -- except   *)
(* for control_active of a flow controller (activating it REMOVES the pressure coupling).        *)
MonotoneStep ==
    LET on(x, y) == ~x /\ y
        R == HydSupplied(net)  R2 == HydSupplied(net)'
    IN /\ (\E i \in DOMAIN net.J : ToggleJ(i) /\ on(net.J[i].svc, net.J[i].svc')) => R \subseteq R2
       /\ (\E i \in DOMAIN net.E : ToggleE(i) /\ on(net.E[i].svc, net.E[i].svc')) => R \subseteq R2
       /\ (\E i \in DOMAIN net.N : ToggleN(i) /\ on(net.N[i].svc, net.N[i].svc')) => R \subseteq R2
       /\ (\E i \in DOMAIN net.E : ToggleE(i) /\ on(net.E[i].svc', net.E[i].svc)) => R2 \subseteq R
       /\ (\E i \in DOMAIN net.E : ToggleCA(i) /\ net.E[i].tbl = "flow_control"
                /\ on(net.E[i].ca, net.E[i].ca')) => R2 \subseteq R
Monotone == [][MonotoneStep]_vars

(* ---- constant values for configurations ---- *)
KindsAll == {"pipe", "valve", "flow_control", "press_control", "pump", "heat_exchanger",
             "heat_consumer", "circ_pump_mass", "circ_pump_pressure"}
KindsCore == {"pipe", "valve", "flow_control", "press_control", "heat_consumer", "circ_pump_pressure"}
KindsPipe == {"pipe"}
KindsGas == {"pipe", "valve", "compressor", "flow_control", "press_control"}
KindsPassive == {"pipe", "valve", "heat_exchanger"}
NKindsFeed == {<<"ext_grid", "p">>, <<"ext_grid", "pt">>, <<"sink", "">>}
KindsCtl == {"pipe", "press_control", "flow_control", "circ_pump_mass"}
NKindsAll == {<<"ext_grid", "p">>, <<"ext_grid", "t">>, <<"sink", "">>}
NKindsTherm == {<<"ext_grid", "p">>, <<"ext_grid", "t">>, <<"ext_grid", "pt">>, <<"sink", "">>}
NKindsCore == {<<"ext_grid", "p">>, <<"sink", "">>}

(* ---- emission ---- *)
Emit == EmitOn => PrintT(ToJson([vp |-> "NET", net |-> net, last |-> last,
                                 sup |-> HydSupplied(net)]))
=============================================================================
