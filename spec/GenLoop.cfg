SPECIFICATION Spec
INVARIANT InvEnergy
INVARIANT InvTemps
CHECK_DEADLOCK FALSE
