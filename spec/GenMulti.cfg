SPECIFICATION Spec
INVARIANT InvRoundTrip
INVARIANT InvPowerLedInverse
CHECK_DEADLOCK FALSE
