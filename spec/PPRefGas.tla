------------------------------ MODULE PPRefGas ------------------------------
(***************************************************************************)
(* Exact reference for the DESIGNED gas family (DESIGN D1, gases).          *)
(* Gas with rho_N = p_N = 1.01325, compressibility K = 1, T = T_N, A = 0.01, *)
(* Re = 6400 |m|, lambda_turb = 1/16.  The documented real-gas law          *)
(*   p1 - p2 + rho_m g dh/1e5 = p_N T K (lambda L/D + zeta) m|m| /           *)
(*                              (T_N 1e5 rho_N A^2 (p1 + p2))    (abs. p)    *)
(* with rho_m = (p1 + p2)/2 becomes, multiplied by (p1 + p2):               *)
(*   p1^2 - p2^2 + (p1 + p2)^2 / 2 * 9.81e-5 dh = 0.1 (N/16 + zeta) m|m| + N m / 1000 *)
(* (heights in levels of 20000/981 m: the height factor is 1e-3 per level)          *)
(* POTENTIALS FIRST: the scenario chooses the absolute pressure of every    *)
(* node (centibar), heights and demands; the loss coefficient of every      *)
(* branch is derived (a rational).  Reported gas velocities and norm        *)
(* factors follow: normfactor = 1.01325 / p_abs, v = 100 m / p_abs [bar].   *)
(***************************************************************************)
EXTENDS Rat, Sequences, FiniteSets

AbsI(x) == IF x < 0 THEN -x ELSE x
Nodes(s) == DOMAIN s.nodes
Children(s, k) == {c \in Nodes(s) : s.nodes[c].par = k}
RECURSIVE SumF(_, _)
SumF(f, S) == IF S = {} THEN 0 ELSE LET x == CHOOSE x \in S : TRUE IN f[x] + SumF(f, S \ {x})
RECURSIVE Flow(_, _)
Flow(s, k) == s.nodes[k].d + LET Ch == Children(s, k) IN SumF([c \in Ch |-> Flow(s, c)], Ch)

(* pressures in bar as rationals from centibar *)
PB(s, k) == <<s.nodes[k].P, 100>>
(* heights: level index h in {1, 2, 3} = level 0, +1, -1; one level is 20000/981 m, so that                 *)
(* g dh / (2 * 1e5) = 1e-3 per level (the harness builds junctions at exactly these heights)                  *)
Level(s, k) == LET h == s.nodes[k].h IN IF h = 1 THEN 0 ELSE IF h = 2 THEN 1 ELSE -1
(* required loss coefficient of the branch into node k *)
Zeta(s, k) ==
    LET n == s.nodes[k]
        p1 == PB(s, n.par)  p2 == PB(s, k)
        m == Flow(s, k)
        dl == Level(s, n.par) - Level(s, k)
        lhs == RAdd(RSub(RMul(p1, p1), RMul(p2, p2)), RMul(RMul(RAdd(p1, p2), RAdd(p1, p2)), <<dl, 1000>>))
        fixed == RAdd(RMul(<<1, 10>>, RMul(<<n.N, 16>>, R(m * AbsI(m)))), <<n.N * m, 1000>>)
    IN RDiv(RSub(lhs, fixed), RMul(<<1, 10>>, R(m * AbsI(m))))
Admissible(s) ==
    /\ Len(s.nodes) >= 2
    /\ \A k \in Nodes(s) \ {1} : Flow(s, k) > 0 /\ RLe(R(0), Zeta(s, k)) /\ Zeta(s, k)[2] < 1000000 /\ AbsI(Zeta(s, k)[1]) < 100000000
Feed(s) == Flow(s, 1)
=============================================================================
