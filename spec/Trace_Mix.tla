------------------------------- MODULE Trace_Mix -------------------------------
(* C10 / C11: observed temperatures of the mixing scenarios (milli-kelvin above 300 K) against the enthalpy balance of PPRefMix *)
EXTENDS PPRefMix, Json, IOUtils, TLC, SequencesExt
Cases == ndJsonDeserialize(IOEnv.TRACE_FILE)
VARIABLES ci, bad
vars == <<ci, bad>>
Streams(c) == [i \in DOMAIN c.x.streams |-> <<c.x.streams[i][1], c.x.streams[i][2]>>]
Num1(o) == o[1] = 0
CaseClauses(c) ==
    IF c.outcome # "returned" THEN (IF c.outcome = "PipeflowNotConverged" THEN {} ELSE {<<"MIX.not_returned", c.outcome>>}) ELSE
    LET s == Streams(c)  M == SumM(s) IN
    (IF \E i \in DOMAIN s : ~(Num1(c.obs.feed[i]) /\ Abs(c.obs.feed[i][2] - s[i][2]) <= 2) THEN {<<"C10.feed_temperature", c.x.mode>>} ELSE {})
    \cup (IF ~Num1(c.obs.tmix) \/ c.obs.tmix[2] < 0 THEN {<<"C10.mix_missing", c.x.mode>>}
          ELSE (IF ~MixOK(s, c.obs.tmix[2]) THEN {<<"C10.mixing_not_energy_conserving", c.x.mode>>} ELSE {})
               \cup (IF c.obs.tmix[2] < MinT(s) - 2 \/ c.obs.tmix[2] > MaxT(s) + 2 THEN {<<"C10.mix_out_of_bounds", c.x.mode>>} ELSE {}))
    \cup (IF Num1(c.obs.tmix) /\ Num1(c.obs.tout) /\ c.obs.tmix[2] >= 0 /\ c.obs.tout[2] >= 0 /\ ~DutyOK(M, c.obs.tmix[2], c.obs.tout[2], c.x.q)
          THEN {<<"C11.duty_inconsistent", "heat_exchanger:" \o c.x.mode>>} ELSE {})
    \cup (IF Num1(c.obs.tout) /\ Num1(c.obs.tsink) /\ Abs(c.obs.tout[2] - c.obs.tsink[2]) > 2 THEN {<<"C10.lossless_pipe_changes_temperature", c.x.mode>>} ELSE {})
    \cup (IF ~(Num1(c.obs.msum) /\ Abs(c.obs.msum[2] - M * 1000000) <= 5) THEN {<<"MIX.flows_not_as_designed", c.x.mode>>} ELSE {})
Init == ci = 0 /\ bad = {}
Step == /\ ci < Len(Cases) /\ ci' = ci + 1
        /\ LET c == Cases[ci + 1]  f == CaseClauses(c) IN
           /\ bad' = f
           /\ IF f = {} THEN TRUE ELSE PrintT(ToJson([vp |-> "FAIL", id |-> c.id, clauses |-> SetToSeq(f)]))
Spec == Init /\ [][Step]_vars
Post == /\ PrintT(ToJson([vp |-> "SUMMARY", cases |-> Len(Cases)]))
        /\ TLCGet("stats").diameter - 1 = Len(Cases)
=============================================================================
