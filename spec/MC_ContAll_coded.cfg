SPECIFICATION Spec
CONSTANTS
  Impl = "coded"
  Tables = {"pipe", "sink"}
  LabelSets = {{2, 4, 9}, {0, 1, 2}}
  Start = 0
  EmitOn = FALSE
INVARIANT InvNoError
INVARIANT InvDone
INVARIANT InvFollow
CHECK_DEADLOCK FALSE
