-------------------------------- MODULE PPStd --------------------------------
(***************************************************************************)
(* Semantics of the standard-type calls as functions (shared by the state   *)
(* machine MC_StdType and the trace specification Trace_StdType).           *)
(* A library is a function name -> [d, k, u]; NoVal = "not given / the type *)
(* has no such parameter" (a pipe of such a type has no heat-transfer       *)
(* coefficient entry either: NaN, projected to NoVal).                      *)
(***************************************************************************)
EXTENDS Integers, Sequences, FiniteSets

NoVal == -1
Row(st, d, k, u) == [std |-> st, d |-> d, k |-> k, u |-> u]
TypeAdmissible(lib, n, dt, ow) == dt.d # NoVal /\ (ow \/ n \notin DOMAIN lib)
WithType(lib, n, dt) == [x \in DOMAIN lib \cup {n} |-> IF x = n THEN dt ELSE lib[x]]
WithoutType(lib, n) == [x \in DOMAIN lib \ {n} |-> lib[x]]
FromType(lib, n, ko, uo) == Row(n, lib[n].d, IF ko # NoVal THEN ko ELSE lib[n].k, IF uo # NoVal THEN uo ELSE lib[n].u)
Retyped(lib, r, n) == [std |-> n, d |-> lib[n].d, k |-> lib[n].k, u |-> IF lib[n].u # NoVal THEN lib[n].u ELSE r.u]
=============================================================================
