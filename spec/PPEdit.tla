------------------------------- MODULE PPEdit -------------------------------
(***************************************************************************)
(* The editing API of pandapipes as functions on PPNet values:              *)
(* create_* (guard + effect), reindex / continuous index, drop, fuse,        *)
(* select.  A row carries `id`, the identity it was created with (the        *)
(* harness stores it in the row's name), so that "the same element" is       *)
(* meaningful across relabelling.                                            *)
(*                                                                          *)
(* Typed references: junction-typed are a, b (unless the row is a pipe-     *)
(* valve, whose b is a PIPE label), cj of a pressure controller, j of a      *)
(* node element.                                                             *)
(***************************************************************************)
EXTENDS PPNet, SequencesExt, FiniteSetsExt

MapSeq(s, F(_)) == [i \in DOMAIN s |-> F(s[i])]
Keep(s, T(_)) == SelectSeq(s, T)

(* ---- lookups: partial functions label -> label; unlisted labels keep theirs ---- *)
Ap(lk, l) == IF l \in DOMAIN lk THEN lk[l] ELSE l

(* an admissible lookup for table labels L: keys exist, the completed map is injective on L *)
LookupOK(lk, L) == DOMAIN lk \subseteq L /\ \A x, y \in L : Ap(lk, x) = Ap(lk, y) => x = y

(* --------------------------- relabelling -------------------------------- *)
RelabelJ(net, lk) ==
    [J |-> MapSeq(net.J, LAMBDA r : [r EXCEPT !.lab = Ap(lk, r.lab)]),
     E |-> MapSeq(net.E, LAMBDA e : [e EXCEPT !.a = Ap(lk, e.a),
                                              !.b = IF IsPipeValve(e) THEN e.b ELSE Ap(lk, e.b),
                                              !.cj = IF e.tbl = "press_control" THEN Ap(lk, e.cj) ELSE e.cj]),
     N |-> MapSeq(net.N, LAMBDA n : [n EXCEPT !.j = Ap(lk, n.j)])]

RelabelTbl(net, t, lk) ==      \* t a branch table (incl. "pipe") or a node-element table
    [J |-> net.J,
     E |-> MapSeq(net.E, LAMBDA e : [e EXCEPT !.lab = IF e.tbl = t THEN Ap(lk, e.lab) ELSE e.lab,
                                              !.b = IF t = "pipe" /\ IsPipeValve(e) THEN Ap(lk, e.b) ELSE e.b]),
     N |-> MapSeq(net.N, LAMBDA n : [n EXCEPT !.lab = IF n.tbl = t THEN Ap(lk, n.lab) ELSE n.lab])]

Relabel(net, t, lk) == IF t = "junction" THEN RelabelJ(net, lk) ELSE RelabelTbl(net, t, lk)

TblLabs(net, t) == IF t = "junction" THEN JLabs(net)
                   ELSE IF t \in NodeElTables THEN {n.lab : n \in NERows(net, t)} ELSE Labs(net, t)

(* continuous index: labels in ascending order become start, start+1, ... *)
RECURSIVE Rank(_, _)
Rank(S, x) == Cardinality({y \in S : y < x})
ContLookup(L, start) == [l \in L |-> start + Rank(L, l)]

(* create_continuous_elements_index: every table gets its own continuous index (each lookup depends on that table's labels only, *)
(* so the order in which the tables are processed cannot matter - MC_ContAll models the implementation's order dependence)        *)
AllTblSeq == <<"junction">> \o SetToSeq(BranchTables \cup NodeElTables)
ContAll(net, start) == FoldLeft(LAMBDA acc, t : Relabel(acc, t, ContLookup(TblLabs(acc, t), start)), net, AllTblSeq)

(* ------------------------------ dropping -------------------------------- *)
JRefs(e) == {e.a} \cup (IF IsPipeValve(e) THEN {} ELSE {e.b}) \cup (IF e.tbl = "press_control" THEN {e.cj} ELSE {})
TouchesJ(e, S) == JRefs(e) \cap S # {}

(* drop the pipes P; a valve attached to a dropped pipe cannot stay *)
DropPipes(net, P) ==
    [net EXCEPT !.E = Keep(net.E, LAMBDA e : ~(e.tbl = "pipe" /\ e.lab \in P) /\ ~(IsPipeValve(e) /\ e.b \in P))]

DropElementsAtJ(net, S) ==
    LET goneP == {e.lab : e \in {e \in ERows(net) : e.tbl = "pipe" /\ TouchesJ(e, S)}}
    IN [J |-> net.J,
        E |-> Keep(net.E, LAMBDA e : ~TouchesJ(e, S) /\ ~(IsPipeValve(e) /\ e.b \in goneP)),
        N |-> Keep(net.N, LAMBDA n : n.j \notin S)]

DropJunctions(net, S) ==
    LET d == DropElementsAtJ(net, S) IN [d EXCEPT !.J = Keep(net.J, LAMBDA r : r.lab \notin S)]

(* fuse: every junction reference into J2 is redirected to j1; the junctions J2 \ {j1} disappear *)
Fuse(net, j1, J2) ==
    LET G == J2 \ {j1}
        lk == [l \in G |-> j1]
        r == RelabelJ([net EXCEPT !.J = <<>>], lk)
    IN [r EXCEPT !.J = Keep(net.J, LAMBDA x : x.lab \notin G)]

(* subnet on junction set S: junctions of S and every element all of whose junctions are in S; *)
(* a pipe-valve needs its junction and its pipe *)
Select(net, S) ==
    LET keptP == {e.lab : e \in {e \in ERows(net) : e.tbl = "pipe" /\ JRefs(e) \subseteq S}}
    IN [J |-> Keep(net.J, LAMBDA r : r.lab \in S),
        E |-> Keep(net.E, LAMBDA e : JRefs(e) \subseteq S /\ (IsPipeValve(e) => e.b \in keptP)),
        N |-> Keep(net.N, LAMBDA n : n.j \in S)]

(* --------------------------- comparison --------------------------------- *)
(* nets are compared as sets of rows (row order is not part of the abstract state) *)
SameNet(x, y) == JRows(x) = JRows(y) /\ ERows(x) = ERows(y) /\ NRows(x) = NRows(y)
RowIds(net) == {r.id : r \in JRows(net)} \cup {e.id : e \in ERows(net)} \cup {n.id : n \in NRows(net)}
(* rows of `pre` that an operation on junction set S / pipe set P must not touch *)
UntouchedBy(pre, S, P) ==
    [J |-> {r \in JRows(pre) : r.lab \notin S},
     E |-> {e \in ERows(pre) : ~TouchesJ(e, S) /\ ~(e.tbl = "pipe" /\ e.lab \in P) /\ ~(IsPipeValve(e) /\ e.b \in P)
                               /\ ~(IsPipeValve(e) /\ \E p \in Rows(pre, "pipe") : p.lab = e.b /\ TouchesJ(p, S))},
     N |-> {n \in NRows(pre) : n.j \notin S}]

(* ----------------------------- creation --------------------------------- *)
(* guards: what a create call must refuse *)
FreeLab(net, t, l) == l \notin TblLabs(net, t)
NextFree(net, t) == IF TblLabs(net, t) = {} THEN 0 ELSE Max(TblLabs(net, t)) + 1
GuardBranch(net, t, l, a, b) == a \in JLabs(net) /\ b \in JLabs(net) /\ (l = -1 \/ FreeLab(net, t, l))
GuardValve(net, l, j, el, et) ==
    /\ j \in JLabs(net) /\ (l = -1 \/ FreeLab(net, "valve", l))
    /\ et \in {"ju", "pi"}
    /\ IF et = "ju" THEN el \in JLabs(net)
       ELSE \E p \in Rows(net, "pipe") : p.lab = el /\ (p.a = j \/ p.b = j)
GuardJunction(net, l, geo) == (l = -1 \/ FreeLab(net, "junction", l)) /\ geo # "bad"
HCSpecs == {"qm", "qd", "qt", "md", "mt", "dt", "q", "qmd", "none"}   \* q: qext, m: mdot, d: deltat, t: treturn
HCSpecOK(sp) == sp \in {"qm", "qd", "qt", "md", "mt"}
GuardNodeEl(net, t, l, j) == j \in JLabs(net) /\ (l = -1 \/ FreeLab(net, t, l))
=============================================================================
