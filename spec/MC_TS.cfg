SPECIFICATION Spec
CONSTANTS
  MaxLen = 4
  Inputs = {"A", "B", "X"}
  EmitOn = FALSE
INVARIANT InvStandalone
INVARIANT InvAbort
INVARIANT InvComplete
INVARIANT InvPrefix
INVARIANT InvHydRepeat
CHECK_DEADLOCK FALSE
