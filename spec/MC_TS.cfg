SPECIFICATION Spec
CONSTANTS
  MaxLen = 3
  Inputs = {"A", "B", "X"}
  EmitOn = FALSE
  StepOrders = "any"
INVARIANT InvStandalone
INVARIANT InvAbort
INVARIANT InvComplete
INVARIANT InvPrefix
INVARIANT InvHydRepeat
INVARIANT InvOnlyRunRows
CHECK_DEADLOCK FALSE
