------------------------------- MODULE PPNet -------------------------------
(***************************************************************************)
(* The pandapipes net as data.  A net value is a record                    *)
(*   [J : Seq(junction row), E : Seq(branch row), N : Seq(node-element row)]*)
(* with uniform rows, so that the same operators apply to nets produced by  *)
(* the specification (generator / editing machine) and to nets projected    *)
(* from the real tables by harness/project.py (JSON -> TLA+ value).         *)
(*                                                                          *)
(*  junction row   [lab, svc]                       (+ optional fields)     *)
(*  branch row     [tbl, lab, a, b, et, svc, ca, cj]                         *)
(*     tbl  table name ("pipe", "valve", ...), lab  row label               *)
(*     a    from_junction / junction / return_junction                      *)
(*     b    to_junction / flow_junction / valve `element`                   *)
(*          (a junction label if et = "ju", a PIPE label if et = "pi")      *)
(*     svc  in_service (valve: opened), ca control_active, cj controlled     *)
(*          junction (press_control) else 0                                 *)
(*  node-el row    [tbl, lab, j, svc, typ]                                  *)
(***************************************************************************)
EXTENDS Integers, Sequences, FiniteSets

BranchTables == {"pipe", "valve", "flow_control", "press_control", "pump", "compressor",
                 "heat_exchanger", "heat_consumer", "circ_pump_mass", "circ_pump_pressure"}
CircPumpTables == {"circ_pump_mass", "circ_pump_pressure"}
NodeElTables == {"ext_grid", "sink", "source", "mass_storage"}
LoadTables == {"sink", "source", "mass_storage"}

Rng(s) == {s[i] : i \in DOMAIN s}

JRows(net) == Rng(net.J)
ERows(net) == Rng(net.E)
NRows(net) == Rng(net.N)
JLabs(net) == {r.lab : r \in JRows(net)}
Rows(net, t) == {r \in ERows(net) : r.tbl = t}
NERows(net, t) == {r \in NRows(net) : r.tbl = t}
Labs(net, t) == {r.lab : r \in Rows(net, t)}
JRow(net, l) == CHOOSE r \in JRows(net) : r.lab = l
JSvc(net, l) == \E r \in JRows(net) : r.lab = l /\ r.svc

IsPipeValve(e) == e.tbl = "valve" /\ e.et = "pi"

(* Every typed reference resolves.  A valve's `element` is a junction or a pipe,     *)
(* depending on `et`; a pressure controller additionally names a controlled junction. *)
RefOKRow(net, e) ==
    /\ e.a \in JLabs(net)
    /\ IF IsPipeValve(e) THEN e.b \in Labs(net, "pipe") ELSE e.b \in JLabs(net)
    /\ (e.tbl = "press_control" => e.cj \in JLabs(net))
RefOK(net) ==
    /\ \A e \in ERows(net) : RefOKRow(net, e)
    /\ \A n \in NRows(net) : n.j \in JLabs(net)

(* Labels are unique per table. *)
LabelsUnique(net) ==
    /\ \A i, k \in DOMAIN net.J : net.J[i].lab = net.J[k].lab => i = k
    /\ \A i, k \in DOMAIN net.E :
          (net.E[i].tbl = net.E[k].tbl /\ net.E[i].lab = net.E[k].lab) => i = k
    /\ \A i, k \in DOMAIN net.N :
          (net.N[i].tbl = net.N[k].tbl /\ net.N[i].lab = net.N[k].lab) => i = k

(* A pipe-valve sits at an end of its pipe. *)
PipeValveAttached(net, v) ==
    \E p \in Rows(net, "pipe") : p.lab = v.b /\ (p.a = v.a \/ p.b = v.a)

WellFormed(net) == RefOK(net) /\ LabelsUnique(net)
    /\ \A v \in ERows(net) : IsPipeValve(v) => PipeValveAttached(net, v)
=============================================================================
