SPECIFICATION Spec
CONSTANTS
  MaxOps = 3
  Modes = {"hydraulics", "sequential", "bidirectional", "heat"}
  Budgets = {"ample", "starved"}
  Methods = {"constant"}
  TolSets = {"default"}
  Matrix = {"plain", "update", "reuse"}
  EditOps = {"edit", "struct", "user"}
  EmitOn = FALSE
INVARIANT InvFailedEmpty
INVARIANT InvFlag
INVARIANT InvHeatNeedsHyd
CHECK_DEADLOCK FALSE
