SPECIFICATION Spec
CONSTANTS
  MaxOps = 3
  Modes = {"hydraulics", "sequential", "bidirectional", "heat"}
  Budgets = {"ample", "starved"}
  Methods = {"constant", "automatic"}
  TolSets = {"default", "split", "split2"}
  EditOps = {"edit"}
  EmitOn = FALSE
INVARIANT InvFailedEmpty
INVARIANT InvFlag
INVARIANT InvHeatNeedsHyd
CHECK_DEADLOCK FALSE
