SPECIFICATION Spec
CONSTANTS
  MaxJ = 3
  MaxE = 2
  MaxN = 2
  MaxPV = 1
  Kinds <- KindsAll
  NKinds <- NKindsAll
  EmitOn = FALSE
VIEW View
INVARIANT InvWellFormed
INVARIANT InvFixpoint
INVARIANT InvSlackSupplied
INVARIANT InvNoSlackNoSupply
PROPERTY Monotone
CHECK_DEADLOCK FALSE
