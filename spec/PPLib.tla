------------------------------- MODULE PPLib -------------------------------
(***************************************************************************)
(* Fluid-property and pump-type semantics as exact rational functions.      *)
(*  property classes: constant, linear, tabulated (linear interpolation,    *)
(*  linear extrapolation beyond the table); value and integral.             *)
(*  pump type: lift = max(0, sum c_i (3600 v)^i) for v >= 0, 0 for v < 0.   *)
(***************************************************************************)
EXTENDS Rat, Sequences, FiniteSets

(* p = [cls |-> "const", c]  |  [cls |-> "linear", slope, offset]  |  [cls |-> "inter", xs, ys] (integer knots) *)
Seg(p, x) ==      \* index i of the segment [xs[i], xs[i+1]] used for x (end segments extrapolate)
    LET n == Len(p.xs)
        S == {i \in 1..(n - 1) : RLe(R(p.xs[i]), x)}
    IN IF S = {} THEN 1 ELSE CHOOSE i \in S : \A k \in S : k <= i
Val(p, x) ==
    IF p.cls = "const" THEN p.c
    ELSE IF p.cls = "linear" THEN RAdd(p.offset, RMul(p.slope, x))
    ELSE LET i == Seg(p, x)
             sl == RDiv(R(p.ys[i + 1] - p.ys[i]), R(p.xs[i + 1] - p.xs[i]))
         IN RAdd(R(p.ys[i]), RMul(sl, RSub(x, R(p.xs[i]))))

(* antiderivative with F(first knot) = 0 for tables, F(0) = 0 otherwise *)
RECURSIVE KnotF(_, _)
KnotF(p, i) == IF i = 1 THEN R(0)
               ELSE RAdd(KnotF(p, i - 1), RMul(RHalf(R(p.ys[i - 1] + p.ys[i])), R(p.xs[i] - p.xs[i - 1])))
Anti(p, x) ==
    IF p.cls = "const" THEN RMul(p.c, x)
    ELSE IF p.cls = "linear" THEN RAdd(RMul(p.offset, x), RMul(RHalf(p.slope), RMul(x, x)))
    ELSE LET i == Seg(p, x)
             dx == RSub(x, R(p.xs[i]))
         IN RAdd(KnotF(p, i), RMul(RHalf(RAdd(R(p.ys[i]), Val(p, x))), dx))      \* trapezoid: exact for a linear piece
Integral(p, lo, hi) == RSub(Anti(p, hi), Anti(p, lo))

(* pump: coefficients cs = <<c0, c1, c2>> (lowest order first) in bar per (m3/h)^i, v in m3/h as a rational *)
RECURSIVE Poly(_, _, _)
Poly(cs, q, i) == IF i > Len(cs) THEN R(0) ELSE RAdd(cs[i], RMul(q, Poly(cs, q, i + 1)))     \* Horner
PumpLift(cs, q) == IF RLt(q, R(0)) THEN R(0)
                   ELSE LET v == Poly(cs, q, 1) IN IF RLt(v, R(0)) THEN R(0) ELSE v

(* mixtures: fractions as rationals *)
RECURSIVE RSum(_)
RSum(s) == IF s = <<>> THEN R(0) ELSE RAdd(Head(s), RSum(Tail(s)))
MolarMassFromMolar(M, x) == RSum([i \in DOMAIN M |-> RMul(x[i], M[i])])
MassFractions(M, x) == LET tot == MolarMassFromMolar(M, x) IN [i \in DOMAIN M |-> RDiv(RMul(x[i], M[i]), tot)]
MolarMassFromMass(M, w) == RDiv(R(1), RSum([i \in DOMAIN M |-> RDiv(w[i], M[i])]))
MixDensity(rho, w) == RDiv(R(1), RSum([i \in DOMAIN rho |-> RDiv(w[i], rho[i])]))
MixHeatCapacity(cp, w) == RSum([i \in DOMAIN cp |-> RMul(w[i], cp[i])])
=============================================================================
