------------------------------- MODULE GenGas -------------------------------
(* generator of designed gas scenarios: trees with chosen absolute pressures (centibar), heights and demands *)
EXTENDS PPRefGas, TLC, Json
CONSTANTS MaxNodes, PVals, HVals, Demands, NVals, Kinds, EmitOn, MaxSteps
VARIABLES s, steps
vars == <<s, steps>>
Init == \E P \in PVals, h \in HVals :
          /\ s = [nodes |-> <<[par |-> 0, kind |-> "", rev |-> FALSE, N |-> 0, P |-> P, h |-> h, d |-> 0]>>,
                  hm |-> [i \in {1, 2, 3} |-> IF i = 1 THEN 0 ELSE IF i = 2 THEN 10 ELSE -20]]
          /\ steps = 0
AddNode == /\ Len(s.nodes) < MaxNodes
           /\ \E par \in Nodes(s), kind \in Kinds, rev \in BOOLEAN, N \in NVals, P \in PVals, h \in HVals, d \in Demands :
                /\ (kind = "valve" => N = 0) /\ (kind = "pipe" => N > 0)
                /\ P < s.nodes[par].P
                /\ s' = [s EXCEPT !.nodes = Append(@, [par |-> par, kind |-> kind, rev |-> rev, N |-> N, P |-> P, h |-> h, d |-> d])]
           /\ steps' = steps + 1
Finish == /\ EmitOn /\ steps = MaxSteps /\ Admissible(s)
          /\ PrintT(ToJson([vp |-> "GAS", s |-> s, zeta |-> [k \in Nodes(s) |-> IF k = 1 THEN <<0, 1>> ELSE Zeta(s, k)],
                            m |-> [k \in Nodes(s) |-> Flow(s, k)]]))
          /\ UNCHANGED vars
Next == (steps < MaxSteps /\ AddNode) \/ Finish
Spec == Init /\ [][Next]_vars
InvBalance == Feed(s) = SumF([k \in Nodes(s) |-> s.nodes[k].d], Nodes(s))
(* the derived coefficient reproduces the chosen pressures: plugging it back into the law gives an identity *)
InvLaw == \A k \in Nodes(s) \ {1} : Flow(s, k) > 0 =>
    LET n == s.nodes[k]  m == Flow(s, k)  p1 == PB(s, n.par)  p2 == PB(s, k)  dl == Level(s, n.par) - Level(s, k)
    IN REq(RAdd(RSub(RMul(p1, p1), RMul(p2, p2)), RMul(RMul(RAdd(p1, p2), RAdd(p1, p2)), <<dl, 1000>>)),
           RAdd(RMul(<<1, 10>>, RMul(RAdd(<<n.N, 16>>, Zeta(s, k)), R(m * AbsI(m)))), <<n.N * m, 1000>>))
Emit == (EmitOn /\ Admissible(s)) => PrintT(ToJson([vp |-> "GAS", s |-> s,
            zeta |-> [k \in Nodes(s) |-> IF k = 1 THEN <<0, 1>> ELSE Zeta(s, k)], m |-> [k \in Nodes(s) |-> Flow(s, k)]]))
KindsAll == {"pipe", "valve"}
=============================================================================
