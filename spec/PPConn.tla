------------------------------- MODULE PPConn -------------------------------
(***************************************************************************)
(* Who is supplied.  The meaning of the solver's connectivity check and of  *)
(* the topology package's graph, written once, over PPNet values.           *)
(***************************************************************************)
EXTENDS PPNet

Jn(l) == <<"j", l, 0>>          \* graph node of a junction
Vn(j, p) == <<"v", j, p>>       \* internal node between junction j and pipe p (pipe-valves)

Both(x, y) == {<<x, y>>, <<y, x>>}

(* the end of pipe p at junction j: the valve node if a pipe-valve sits there *)
PipeEnd(net, p, j) ==
    IF \E v \in ERows(net) : IsPipeValve(v) /\ v.a = j /\ v.b = p.lab
    THEN Vn(j, p.lab) ELSE Jn(j)

(* Branches through which the hydraulic connectivity search may walk:         *)
(* in service / open, and establishing a pressure coupling.  An active flow   *)
(* controller and every heat consumer prescribe a flow, not a pressure        *)
(* relation: they do not connect.                                             *)
Connecting(e) == e.svc /\ ~(e.tbl = "flow_control" /\ e.ca) /\ e.tbl # "heat_consumer"
IsFlowReturn(e) == (e.tbl = "flow_control" /\ e.ca) \/ e.tbl = "heat_consumer"

EdgesOf(net, e) ==
    IF ~Connecting(e) THEN {}
    ELSE IF e.tbl = "pipe" THEN Both(PipeEnd(net, e, e.a), PipeEnd(net, e, e.b))
    ELSE IF IsPipeValve(e) THEN Both(Jn(e.a), Vn(e.a, e.b))
    ELSE IF e.tbl = "press_control" THEN {<<Jn(e.a), Jn(e.b)>>}    \* walked from -> to only
    ELSE Both(Jn(e.a), Jn(e.b))

HydEdges(net) == UNION {EdgesOf(net, e) : e \in ERows(net)}

PTypes == {"p", "pt"}
TTypes == {"t", "pt"}

(* junctions whose pressure is fixed by an in-service feeder *)
PFixJunctions(net) ==
    {n.j : n \in {n \in NERows(net, "ext_grid") : n.svc /\ n.typ \in PTypes}}
    \cup {e.b : e \in {e \in ERows(net) : e.tbl \in CircPumpTables /\ e.svc /\ e.typ \in PTypes}}

HydSlacks(net) == {Jn(j) : j \in {j \in PFixJunctions(net) : JSvc(net, j)}}

RECURSIVE Closure(_, _)
Closure(R, Ed) ==
    LET Nx == R \cup {ed[2] : ed \in {ed \in Ed : ed[1] \in R}}
    IN IF Nx = R THEN R ELSE Closure(Nx, Ed)

HydReached(net) == Closure(HydSlacks(net), HydEdges(net))
HydSupplied(net) == {l \in JLabs(net) : Jn(l) \in HydReached(net)}

(* a branch row is calculated (has hydraulic results) *)
BranchCalcR(net, R, e) ==
    /\ e.svc
    /\ IF IsFlowReturn(e) THEN Jn(e.a) \in R /\ Jn(e.b) \in R
       ELSE IF e.tbl = "pipe" THEN PipeEnd(net, e, e.a) \in R
       ELSE Jn(e.a) \in R
BranchCalc(net, e) == BranchCalcR(net, HydReached(net), e)

(* a load row is served *)
LoadServedR(net, R, n) == n.svc /\ Jn(n.j) \in R

(* ---- thermal connectivity: temperature-fixing feeders reach what the hydraulically calculated ---- *)
(* branches connect (flow-prescribing elements included: fluid passes through them)                 *)
TFixJunctions(net) ==
    {n.j : n \in {n \in NERows(net, "ext_grid") : n.svc /\ n.typ \in TTypes}}
    \cup {e.b : e \in {e \in ERows(net) : e.tbl \in CircPumpTables /\ e.svc}}
ThermEdgesOf(net, R, e) ==
    IF ~BranchCalcR(net, R, e) THEN {}
    ELSE IF e.tbl = "pipe" THEN Both(PipeEnd(net, e, e.a), PipeEnd(net, e, e.b))
    ELSE IF IsPipeValve(e) THEN Both(Jn(e.a), Vn(e.a, e.b))
    ELSE IF e.tbl = "press_control" THEN {<<Jn(e.a), Jn(e.b)>>}
    ELSE Both(Jn(e.a), Jn(e.b))
ThermReached(net) ==
    LET R == HydReached(net)
    IN Closure({Jn(j) : j \in {j \in TFixJunctions(net) : Jn(j) \in R}}, UNION {ThermEdgesOf(net, R, e) : e \in ERows(net)})
ThermSupplied(net) == {l \in JLabs(net) : Jn(l) \in ThermReached(net)}
BranchThermCalc(net, e) ==
    LET R == HydReached(net)  TR == ThermReached(net) IN
    BranchCalcR(net, R, e) /\ (IF e.tbl = "pipe" THEN PipeEnd(net, e, e.a) \in TR ELSE Jn(e.a) \in TR)

(* ---- independent characterisation of the least fixpoint (used to validate Closure) ---- *)
AllNodes(net) == {Jn(l) : l \in JLabs(net)} \cup {ed[1] : ed \in HydEdges(net)} \cup {ed[2] : ed \in HydEdges(net)}
IsClosed(S, Ed) == \A ed \in Ed : ed[1] \in S => ed[2] \in S
LeastClosed(net) ==
    LET Ed == HydEdges(net)
        Cands == {S \in SUBSET AllNodes(net) : HydSlacks(net) \subseteq S /\ IsClosed(S, Ed)}
    IN {x \in AllNodes(net) : \A S \in Cands : x \in S}
=============================================================================
