------------------------------- MODULE GenHyd -------------------------------
(***************************************************************************)
(* Generator of designed liquid scenarios (trees + chords) for PPRefHyd.    *)
(* Every state is a scenario; TLC checks the model-level facts of the       *)
(* reference (mass balance of the designed flows, invariance of the         *)
(* prediction under the physically irrelevant choices) and emits the        *)
(* scenarios for replay.                                                    *)
(***************************************************************************)
EXTENDS PPRefTherm, TLC, Json

CONSTANTS ThermalOn, MaxNodes, MaxChords, Demands, NVals, ZetaVals, SecVals, HVals, ChordFlows, Kinds, EmitOn, MaxSteps,
          FmVals,                     \* friction models (pipeflow option) the scenario is designed for
          FdVals, TeVals, DtVals      \* thermal attributes: decay-factor code, ambient index, heat-exchanger temperature drop

VARIABLES s, steps
vars == <<s, steps>>

Root(h) == [par |-> 0, kind |-> "", rev |-> FALSE, N |-> 0, zeta |-> 0, sec |-> 1, h |-> h, d |-> 0, fd |-> 1, te |-> 1, dT |-> 0]
Tables == [hm |-> [i \in {1, 2, 3} |-> IF i = 1 THEN 0 ELSE IF i = 2 THEN 10 ELSE -20],
           pamb |-> [i \in {1, 2, 3} |-> IF i = 1 THEN 1013250 ELSE IF i = 2 THEN 1012049 ELSE 1015655]]

Init == \E h \in HVals, pp \in {<<10000000>>, <<9000000, 11000000>>}, fm \in FmVals :
          /\ s = [p0 |-> (IF Len(pp) = 1 THEN pp[1] ELSE (pp[1] + pp[2]) \div 2), p0s |-> pp,
                  nodes |-> <<Root(h)>>, chords |-> <<>>, hm |-> Tables.hm, pamb |-> Tables.pamb, t0 |-> 360, fm |-> fm]
          /\ steps = 0

AddNode ==
    /\ Len(s.nodes) < MaxNodes
    /\ \E par \in Nodes(s), kind \in Kinds, rev \in BOOLEAN, N \in NVals, z \in ZetaVals, sec \in SecVals,
          h \in HVals, d \in Demands, fd \in FdVals, te \in TeVals, dT \in DtVals :
        /\ (kind \notin {"pipe", "pump"} => (N = 0 /\ sec = 1 /\ z > 0 /\ fd = 1 /\ te = 1))
        /\ (kind = "pipe" => N > 0)
        /\ (kind = "pump" => (N \in {160, 320} /\ z \in {1, 2} /\ sec = 1 /\ fd = 1 /\ te = 1 /\ ~rev))   \* N/80 = shut-off head in bar
        /\ (kind # "heat_exchanger" => dT = 0)
        /\ s' = [s EXCEPT !.nodes = Append(@, [par |-> par, kind |-> kind, rev |-> rev, N |-> IF kind = "pump" THEN N \div 80 ELSE N, zeta |-> z,
                                                sec |-> sec, h |-> h, d |-> d, fd |-> fd, te |-> te, dT |-> dT])]
    /\ steps' = steps + 1

AddChord ==
    /\ Len(s.chords) < MaxChords
    /\ \E a \in Nodes(s), b \in Nodes(s), N \in NVals \ {0}, mc \in ChordFlows, sec \in SecVals, rev \in BOOLEAN,
          fd \in FdVals, te \in TeVals :
        /\ a # b
        /\ s' = [s EXCEPT !.chords = Append(@, [a |-> a, b |-> b, kind |-> "pipe", N |-> N, mc |-> mc, sec |-> sec,
                                                 rev |-> rev, zeta |-> <<0, 1>>, fd |-> fd, te |-> te])]
    /\ steps' = steps + 1


(* a scenario is admissible for replay if every designed chord coefficient is non-negative,   *)
(* no branch is at rest and pressures stay positive                                          *)
Admissible(sc) ==
    /\ Len(sc.nodes) >= 2
    /\ \A i \in DOMAIN sc.chords : ChordOK(sc, i)
    /\ NoZeroFlow(sc) /\ AllPositive(sc)
    /\ \A k \in Nodes(sc) \ {1} : FlowOKForLambda(Flow(sc, k))
    /\ \A i \in DOMAIN sc.chords : FlowOKForLambda(sc.chords[i].mc)
    /\ (ThermalOn => (ThermallyDetermined(sc) /\ \A k \in Nodes(sc) : T(sc, k)[2] <= 4096))

WithZetas(sc) == [sc EXCEPT !.chords = [i \in DOMAIN sc.chords |-> [sc.chords[i] EXCEPT !.zeta = ChordZeta(sc, i)]]]

(* simulation: one scenario per generated behaviour, printed by an explicit final step *)
Finish == /\ EmitOn /\ steps = MaxSteps /\ Admissible(s)
          /\ PrintT(ToJson([vp |-> "SCEN", s |-> WithZetas(s),
                            exp |-> [p |-> [k \in Nodes(s) |-> P(s, k)], m |-> [k \in Nodes(s) |-> Flow(s, k)]]]))
          /\ UNCHANGED vars
Next == (steps < MaxSteps /\ (AddNode \/ AddChord)) \/ Finish
Spec == Init /\ [][Next]_vars

(* ---- model-level facts ---- *)
(* Kirchhoff: what the feeder supplies is the sum of all demands *)
InvBalance == Feed(s) = SumF([k \in Nodes(s) |-> s.nodes[k].d], Nodes(s))
(* the prediction does not depend on orientation flags or section counts *)
Neutral(sc) == [sc EXCEPT !.nodes = [k \in DOMAIN sc.nodes |-> [sc.nodes[k] EXCEPT !.rev = FALSE, !.sec = 1]],
                          !.chords = [i \in DOMAIN sc.chords |-> [sc.chords[i] EXCEPT !.rev = FALSE, !.sec = 1]]]
InvOrientationFree == \A k \in Nodes(s) : P(s, k) = P(Neutral(s), k) /\ Flow(s, k) = Flow(Neutral(s), k)
(* raising the fixed pressure by a constant raises every pressure by that constant (liquids) *)
(* energy is conserved by the reference: what the feeder puts in leaves through demands, ambient losses and exchangers; *)
(* checked in the simplest form: without decay and exchangers every temperature equals the feed temperature            *)
InvIsothermal == (ThermalOn /\ Len(s.nodes) >= 2 /\ ThermallyDetermined(s)
                  /\ (\A k \in Nodes(s) : s.nodes[k].fd = 1 /\ s.nodes[k].dT = 0) /\ (\A i \in DOMAIN s.chords : s.chords[i].fd = 1))
                 => \A k \in Nodes(s) : REq(T(s, k), R(s.t0))
InvShift == LET t == [s EXCEPT !.p0 = @ + 500000] IN \A k \in Nodes(s) : P(t, k) = P(s, k) + 500000
(* the friction model only matters through the laminar share of pipes: a scenario without pipes has the same prediction under all models, *)
(* and with pipes the nikuradse pressures are never above the others (its lambda is larger) along the flow direction                      *)
InvFrictionModel ==
    LET nk == [s EXCEPT !.fm = "nikuradse"]  cb == [s EXCEPT !.fm = "colebrook"]  sj == [s EXCEPT !.fm = "swamee-jain"] IN
    /\ \A k \in Nodes(s) : P(cb, k) = P(sj, k)
    /\ ((\A k \in Nodes(s) \ {1} : s.nodes[k].kind # "pipe") => \A k \in Nodes(s) : P(nk, k) = P(cb, k))
    /\ \A k \in Nodes(s) \ {1} : LET n == s.nodes[k]  m == Flow(s, k) IN
          n.kind = "pipe" => DropF(1, "pipe", n.N, n.zeta, m) - DropF(0, "pipe", n.N, n.zeta, m) = (n.N * m) \div 2

Emit == (EmitOn /\ Admissible(s)) =>
    PrintT(ToJson([vp |-> "SCEN", s |-> WithZetas(s),
                   exp |-> [p |-> [k \in Nodes(s) |-> P(s, k)], m |-> [k \in Nodes(s) |-> Flow(s, k)]]]))

KindsAll == {"pipe", "valve", "heat_exchanger"}
KindsPump == {"pipe", "valve", "heat_exchanger", "pump"}
DemandsDef == {-1, 0, 1, 2, 4}
DemandsSmall == {0, 1, 2}
ChordFlowsSmall == {-1, 2}
ChordFlowsDef == {-2, -1, 1, 2}
=============================================================================
