SPECIFICATION Spec
CONSTANTS
  DefaultKeys <- AllDefaultKeys
  NumbaChoices = {TRUE, FALSE}
  Groups <- GroupsAll
  MaxOps = 2
  MaxLayerKeys = 4
  EmitOn = FALSE
VIEW View
INVARIANT InvPrecedence
INVARIANT InvStage
INVARIANT InvDomain
INVARIANT InvCouplings
PROPERTY CallPure
CHECK_DEADLOCK FALSE
