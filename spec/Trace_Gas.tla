------------------------------ MODULE Trace_Gas ------------------------------
(***************************************************************************)
(* C02 (gases): the real solver against the designed gas reference.         *)
(* Observations <<kind, value>>: pressures 1e-6 bar (gauge), mass flow      *)
(* 1e-6 kg/s, velocities 1e-6 m/s, norm factors 1e-9.                       *)
(***************************************************************************)
EXTENDS PPRefGas, Json, IOUtils, TLC, SequencesExt
Cases == ndJsonDeserialize(IOEnv.TRACE_FILE)
VARIABLES ci, bad
vars == <<ci, bad>>
Near(o, x, tol) == o[1] = 0 /\ AbsI(o[2] - x) <= tol
(* ambient pressure at the three height levels: oracle table of the barometric formula (harness, 1e-6 bar) *)
Gauge(s, k) == s.nodes[k].P * 10000 - s.pamb[s.nodes[k].h]         \* centibar -> ubar, minus ambient
S(c) == [c.s EXCEPT !.hm = [i \in {1, 2, 3} |-> c.s.hm[ToString(i)]], !.pamb = [i \in {1, 2, 3} |-> c.s.pamb[ToString(i)]]]
(* v = m / (rho_N A) * normfactor = 100 m * 1.01325 / (1.01325 * p_abs) ... = 100 m / p_abs[bar] ; in 1e-6 m/s with P in centibar *)
NormF(P) == (1013250000 \div P) * 100                   \* 1.01325 / (P/100) * 1e9 = 1.01325e11 / P (32-bit safe, +-100)

BranchClauses(sc, o, k) ==
    LET n == sc.nodes[k]  m == Flow(sc, k)
        x == IF n.rev THEN k ELSE n.par   y == IF n.rev THEN n.par ELSE k       \* declared from / to
        mm == IF n.rev THEN -m ELSE m
    IN (IF ~Near(o.pf, Gauge(sc, x), 3) \/ ~Near(o.pt, Gauge(sc, y), 3) THEN {<<"GAS.end_pressure", n.kind, ToString(k)>>} ELSE {})
       \cup (IF ~Near(o.mf, mm * 1000000, 3) THEN {<<"GAS.mass_flow", n.kind, ToString(k)>>} ELSE {})
       \cup (IF ~Near(o.nf, NormF(sc.nodes[x].P), 200 + NormF(sc.nodes[x].P) \div 500000) \/ ~Near(o.nt, NormF(sc.nodes[y].P), 200 + NormF(sc.nodes[y].P) \div 500000) THEN {<<"GAS.normfactor", n.kind, ToString(k)>>} ELSE {})
       \cup (IF ~Near(o.vf, 100 * ((mm * 100000000) \div sc.nodes[x].P), 200) \/ ~Near(o.vt, 100 * ((mm * 100000000) \div sc.nodes[y].P), 200)
             THEN {<<"GAS.velocity", n.kind, ToString(k)>>} ELSE {})
CaseClauses(c) ==
    LET sc == S(c) IN
    IF c.outcome # "returned" THEN {<<"GAS.not_returned", c.outcome, "">>} ELSE
    {<<"GAS.junction_pressure", "junction", ToString(k)>> : k \in {k \in Nodes(sc) : ~Near(c.obs.nodes[k].p, Gauge(sc, k), 3)}}
    \cup UNION {BranchClauses(sc, c.obs.branches[k - 1], k) : k \in Nodes(sc) \ {1}}
Init == ci = 0 /\ bad = {}
Step == /\ ci < Len(Cases) /\ ci' = ci + 1
        /\ LET c == Cases[ci + 1]  f == CaseClauses(c) IN
           /\ bad' = f
           /\ IF f = {} THEN TRUE ELSE PrintT(ToJson([vp |-> "FAIL", id |-> c.id, clauses |-> SetToSeq(f)]))
Spec == Init /\ [][Step]_vars
Post == /\ PrintT(ToJson([vp |-> "SUMMARY", cases |-> Len(Cases)]))
        /\ TLCGet("stats").diameter - 1 = Len(Cases)
=============================================================================
