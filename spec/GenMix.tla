-------------------------------- MODULE GenMix --------------------------------
(* mixing scenarios for PPRefMix: 2-3 streams (mass flow, feed temperature), a heat exchanger behind the mixing junction, calculation mode, *)
(* declared orientation of the first feeder pipe; model-level facts of the reference                                                        *)
EXTENDS PPRefMix, TLC, Json
VARIABLE x
Temps == {0, 20000, 50000, 60000}                 \* mK above 300 K
Scen == {[streams |-> s, q |-> q, mode |-> md, rev |-> rv] :
           s \in UNION {[1..n -> {1, 2, 3} \X Temps] : n \in 2..3}, q \in {0, 40000, -20000}, md \in {"sequential", "bidirectional"}, rv \in BOOLEAN}
Init == x \in Scen
Next == UNCHANGED x
Spec == Init /\ [][Next]_x
(* streams of one temperature mix to that temperature; the exact mix of the reference, if it is a whole number of mK, is unique *)
InvEqualTemps == (\A i \in DOMAIN x.streams : x.streams[i][2] = x.streams[1][2]) => MixOK(x.streams, x.streams[1][2])
InvMixBetween == \A t \in 0..60 : MixOK(x.streams, t * 1000) => (MinT(x.streams) <= t * 1000 /\ t * 1000 <= MaxT(x.streams))
InvNoDuty == DutyOK(SumM(x.streams), 30000, 30000, 0)
Emit == PrintT(ToJson([vp |-> "MIX", x |-> x]))
=============================================================================
