------------------------------ MODULE PPDefaults ------------------------------
(* Documented defaults of the create functions: transcribed from the signatures of create.py at the baseline *)
(* commit b307031 by tools/gen_defaults.py (numbers as canonical float text, None as "null").  C16 compares   *)
(* what a call with the optional arguments omitted stores in the table with these values.                   *)
Defaults == [
  create_junction |-> [height_m |-> "0.0", in_service |-> "True", type |-> "junction"],
  create_sink |-> [scaling |-> "1.0", in_service |-> "True", type |-> "sink"],
  create_source |-> [scaling |-> "1.0", in_service |-> "True", type |-> "source"],
  create_mass_storage |-> [init_m_stored_kg |-> "0.0", min_m_stored_kg |-> "0.0", max_m_stored_kg |-> "inf", scaling |-> "1.0", in_service |-> "True", type |-> "mass_storage"],
  create_ext_grid |-> [p_bar |-> "null", t_k |-> "null", type |-> "auto", in_service |-> "True"],
  create_heat_exchanger |-> [loss_coefficient |-> "0.0", in_service |-> "True", type |-> "heat_exchanger"],
  create_pipe_from_parameters |-> [outer_diameter_mm |-> "null", k_mm |-> "0.2", loss_coefficient |-> "0.0", sections |-> "1.0", u_w_per_m2k |-> "0.0", text_k |-> "null", in_service |-> "True", type |-> "pipe"],
  create_valve |-> [opened |-> "True", loss_coefficient |-> "0.0", type |-> "valve"],
  create_pump |-> [in_service |-> "True", type |-> "pump"],
  create_circ_pump_const_pressure |-> [t_flow_k |-> "null", type |-> "auto", in_service |-> "True"],
  create_circ_pump_const_mass_flow |-> [t_flow_k |-> "null", type |-> "auto", in_service |-> "True"],
  create_compressor |-> [in_service |-> "True"],
  create_pressure_control |-> [control_active |-> "True", loss_coefficient |-> "0.0", in_service |-> "True", type |-> "pressure_control"],
  create_flow_control |-> [control_active |-> "True", in_service |-> "True", type |-> "fc"],
  create_heat_consumer |-> [qext_w |-> "null", controlled_mdot_kg_per_s |-> "null", deltat_k |-> "null", treturn_k |-> "null", in_service |-> "True", type |-> "heat_consumer"]]
=============================================================================
