-------------------------------- MODULE MC_TS --------------------------------
(***************************************************************************)
(* Time-series loop: for every time step the profile values are applied,    *)
(* the controllers run a calculation, results are logged.  Solve is an      *)
(* uninterpreted function of the step's inputs (DESIGN D5): "A" and "B" are *)
(* feasible input sets, "X" makes the net infeasible (no supply).           *)
(* With continue_on_divergence a diverged step is logged as such and the    *)
(* loop goes on; without it the loop stops by raising.                      *)
(***************************************************************************)
EXTENDS Integers, Sequences, FiniteSets, TLC, Json

CONSTANTS MaxLen, Inputs, EmitOn
VARIABLES profile, cod, t, log, aborted, started
vars == <<profile, cod, t, log, aborted, started>>

Profiles == UNION {[1..n -> Inputs] : n \in 1..MaxLen}
Solve(x) == IF x = "X" THEN <<"diverged", "">> ELSE <<"result", x>>       \* depends on the step's inputs only

Init == /\ profile \in Profiles /\ cod \in BOOLEAN
        /\ t = 0 /\ log = <<>> /\ aborted = FALSE /\ started = FALSE
Step == /\ ~aborted /\ t < Len(profile)
        /\ LET r == Solve(profile[t + 1]) IN
           IF r[1] = "diverged" /\ ~cod THEN aborted' = TRUE /\ log' = log /\ t' = t
           ELSE aborted' = FALSE /\ log' = Append(log, r) /\ t' = t + 1
        /\ started' = TRUE /\ UNCHANGED <<profile, cod>>
Finish == /\ EmitOn /\ (aborted \/ t = Len(profile)) /\ started
          /\ PrintT(ToJson([vp |-> "TS", profile |-> profile, cod |-> cod]))
          /\ UNCHANGED vars
Next == Step \/ Finish
Spec == Init /\ [][Next]_vars

(* every logged step equals the stand-alone solution of that step's inputs *)
InvStandalone == \A i \in DOMAIN log : log[i] = Solve(profile[i])
(* the loop aborts exactly at the first infeasible step when divergence is not tolerated *)
InvAbort == aborted => (~cod /\ profile[t + 1] = "X" /\ \A i \in 1..t : profile[i] # "X")
InvComplete == (t = Len(profile)) => Len(log) = Len(profile)
Emit == (EmitOn /\ t = 0) => PrintT(ToJson([vp |-> "TS", profile |-> profile, cod |-> cod]))
=============================================================================
