-------------------------------- MODULE MC_TS --------------------------------
(***************************************************************************)
(* Time-series loop: for every time step the profile values are applied,    *)
(* the controllers run a calculation, results are logged.  Solve is an      *)
(* uninterpreted function of the step's inputs (DESIGN D5): "A" and "B" are *)
(* feasible input sets, "X" makes the net infeasible (no supply).           *)
(* With continue_on_divergence a diverged step is logged as such and the    *)
(* loop goes on; without it the loop stops by raising.                      *)
(*                                                                          *)
(* transient = TRUE models run_timeseries(.., transient=True, dt): the      *)
(* hydraulic part of a step is still a function of that step's inputs only  *)
(* (quasi-stationary hydraulics), the thermal part is a function of the     *)
(* inputs of all steps up to and including this one (thermal inertia), and  *)
(* of nothing else: the run over a prefix of the profile reproduces the     *)
(* first steps of the run over the whole profile (InvPrefix).               *)
(*                                                                          *)
(* time_steps: the caller may run any subset of the profile's rows in any   *)
(* order (steps = an injective sequence of row numbers); the i-th           *)
(* calculated step carries the inputs of row steps[i] and nothing of the    *)
(* rows that are not run.                                                   *)
(***************************************************************************)
EXTENDS Integers, Sequences, FiniteSets, TLC, Json

CONSTANTS MaxLen, Inputs, EmitOn, StepOrders
VARIABLES profile, steps, cod, transient, t, log, aborted, started
vars == <<profile, steps, cod, transient, t, log, aborted, started>>

Profiles == UNION {[1..n -> Inputs] : n \in 1..MaxLen}
Hyd(x) == <<"hyd", x>>                                   \* uninterpreted: depends on the step's inputs only
Th(tr, past) == <<"th", IF tr THEN past ELSE <<past[Len(past)]>>>>   \* thermal state: the whole past when transient, else this step only
Solve(tr, past) == LET x == past[Len(past)] IN
    IF x = "X" THEN <<"diverged", <<>>, <<>>>> ELSE <<"result", Hyd(x), Th(tr, past)>>

(* injective sequences over a set of row numbers: the ascending full run plus (StepOrders = "any") every subset in every order *)
RECURSIVE InjSeqs(_)
InjSeqs(S) == {<<>>} \cup UNION {{<<x>> \o s : s \in InjSeqs(S \ {x})} : x \in S}
FullRun(p) == [i \in DOMAIN p |-> i]
Eff == [i \in DOMAIN steps |-> profile[steps[i]]]                 \* the inputs along the run
Init == /\ profile \in Profiles /\ cod \in BOOLEAN /\ transient \in BOOLEAN
        /\ steps \in (IF StepOrders = "any" THEN InjSeqs(DOMAIN profile) \ {<<>>} ELSE {FullRun(profile)})
        /\ t = 0 /\ log = <<>> /\ aborted = FALSE /\ started = FALSE
Step == /\ ~aborted /\ t < Len(steps)
        /\ LET r == Solve(transient, SubSeq(Eff, 1, t + 1)) IN
           IF r[1] = "diverged" /\ ~cod THEN aborted' = TRUE /\ log' = log /\ t' = t
           ELSE aborted' = FALSE /\ log' = Append(log, r) /\ t' = t + 1
        /\ started' = TRUE /\ UNCHANGED <<profile, steps, cod, transient>>
Finish == /\ EmitOn /\ (aborted \/ t = Len(steps)) /\ started
          /\ PrintT(ToJson([vp |-> "TS", profile |-> profile, steps |-> steps, cod |-> cod, transient |-> transient]))
          /\ UNCHANGED vars
Next == Step \/ Finish
Spec == Init /\ [][Next]_vars

(* every logged step equals the stand-alone solution of that step's inputs: entirely when stationary, in its hydraulic part when transient *)
InvStandalone == \A i \in DOMAIN log :
    /\ log[i][1] = (IF Eff[i] = "X" THEN "diverged" ELSE "result")
    /\ Eff[i] # "X" => log[i][2] = Hyd(Eff[i])
    /\ (Eff[i] # "X" /\ ~transient) => log[i] = Solve(FALSE, <<Eff[i]>>)
(* the loop aborts exactly at the first infeasible step when divergence is not tolerated *)
InvAbort == aborted => (~cod /\ Eff[t + 1] = "X" /\ \A i \in 1..t : Eff[i] # "X")
InvComplete == (t = Len(steps)) => Len(log) = Len(steps)
(* independent characterisation of the log: what the loop over a profile p logs (all of it, if it does not abort) *)
RECURSIVE LogOf(_, _, _)
LogOf(p, tr, n) == IF n = 0 THEN <<>> ELSE Append(LogOf(p, tr, n - 1), Solve(tr, SubSeq(p, 1, n)))
(* a step depends on the past only: the log is the log of the run over the prefix consumed so far *)
InvPrefix == log = LogOf(Eff, transient, t)
(* rows that are not run leave no trace: the log is that of the run over the effective inputs, whatever the other rows hold *)
InvOnlyRunRows == \A q \in Profiles : (Len(q) = Len(profile) /\ \A i \in DOMAIN steps : q[steps[i]] = profile[steps[i]])
                      => LogOf([i \in DOMAIN steps |-> q[steps[i]]], transient, t) = log
(* two steps with equal inputs have equal hydraulic results, whatever lies between them *)
InvHydRepeat == \A i, k \in DOMAIN log : (Eff[i] = Eff[k] /\ Eff[i] # "X") => log[i][2] = log[k][2]
Emit == (EmitOn /\ t = 0) => PrintT(ToJson([vp |-> "TS", profile |-> profile, steps |-> steps, cod |-> cod, transient |-> transient]))
=============================================================================
