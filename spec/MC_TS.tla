-------------------------------- MODULE MC_TS --------------------------------
(***************************************************************************)
(* Time-series loop: for every time step the profile values are applied,    *)
(* the controllers run a calculation, results are logged.  Solve is an      *)
(* uninterpreted function of the step's inputs (DESIGN D5): "A" and "B" are *)
(* feasible input sets, "X" makes the net infeasible (no supply).           *)
(* With continue_on_divergence a diverged step is logged as such and the    *)
(* loop goes on; without it the loop stops by raising.                      *)
(*                                                                          *)
(* transient = TRUE models run_timeseries(.., transient=True, dt): the      *)
(* hydraulic part of a step is still a function of that step's inputs only  *)
(* (quasi-stationary hydraulics), the thermal part is a function of the     *)
(* inputs of all steps up to and including this one (thermal inertia), and  *)
(* of nothing else: the run over a prefix of the profile reproduces the     *)
(* first steps of the run over the whole profile (InvPrefix).               *)
(***************************************************************************)
EXTENDS Integers, Sequences, FiniteSets, TLC, Json

CONSTANTS MaxLen, Inputs, EmitOn
VARIABLES profile, cod, transient, t, log, aborted, started
vars == <<profile, cod, transient, t, log, aborted, started>>

Profiles == UNION {[1..n -> Inputs] : n \in 1..MaxLen}
Hyd(x) == <<"hyd", x>>                                   \* uninterpreted: depends on the step's inputs only
Th(tr, past) == <<"th", IF tr THEN past ELSE <<past[Len(past)]>>>>   \* thermal state: the whole past when transient, else this step only
Solve(tr, past) == LET x == past[Len(past)] IN
    IF x = "X" THEN <<"diverged", <<>>, <<>>>> ELSE <<"result", Hyd(x), Th(tr, past)>>

Init == /\ profile \in Profiles /\ cod \in BOOLEAN /\ transient \in BOOLEAN
        /\ t = 0 /\ log = <<>> /\ aborted = FALSE /\ started = FALSE
Step == /\ ~aborted /\ t < Len(profile)
        /\ LET r == Solve(transient, SubSeq(profile, 1, t + 1)) IN
           IF r[1] = "diverged" /\ ~cod THEN aborted' = TRUE /\ log' = log /\ t' = t
           ELSE aborted' = FALSE /\ log' = Append(log, r) /\ t' = t + 1
        /\ started' = TRUE /\ UNCHANGED <<profile, cod, transient>>
Finish == /\ EmitOn /\ (aborted \/ t = Len(profile)) /\ started
          /\ PrintT(ToJson([vp |-> "TS", profile |-> profile, cod |-> cod, transient |-> transient]))
          /\ UNCHANGED vars
Next == Step \/ Finish
Spec == Init /\ [][Next]_vars

(* every logged step equals the stand-alone solution of that step's inputs: entirely when stationary, in its hydraulic part when transient *)
InvStandalone == \A i \in DOMAIN log :
    /\ log[i][1] = (IF profile[i] = "X" THEN "diverged" ELSE "result")
    /\ profile[i] # "X" => log[i][2] = Hyd(profile[i])
    /\ (profile[i] # "X" /\ ~transient) => log[i] = Solve(FALSE, <<profile[i]>>)
(* the loop aborts exactly at the first infeasible step when divergence is not tolerated *)
InvAbort == aborted => (~cod /\ profile[t + 1] = "X" /\ \A i \in 1..t : profile[i] # "X")
InvComplete == (t = Len(profile)) => Len(log) = Len(profile)
(* independent characterisation of the log: what the loop over a profile p logs (all of it, if it does not abort) *)
RECURSIVE LogOf(_, _, _)
LogOf(p, tr, n) == IF n = 0 THEN <<>> ELSE Append(LogOf(p, tr, n - 1), Solve(tr, SubSeq(p, 1, n)))
(* a step depends on the past only: the log is the log of the run over the prefix consumed so far *)
InvPrefix == log = LogOf(profile, transient, t)
(* two steps with equal inputs have equal hydraulic results, whatever lies between them *)
InvHydRepeat == \A i, k \in DOMAIN log : (profile[i] = profile[k] /\ profile[i] # "X") => log[i][2] = log[k][2]
Emit == (EmitOn /\ t = 0) => PrintT(ToJson([vp |-> "TS", profile |-> profile, cod |-> cod, transient |-> transient]))
=============================================================================
