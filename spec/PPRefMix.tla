------------------------------- MODULE PPRefMix -------------------------------
(***************************************************************************)
(* Energy-conserving mixing and heat-exchanger duties for a fluid whose     *)
(* heat capacity depends on temperature (C10, C11).                         *)
(*                                                                          *)
(* Designed fluid: cp(T) = 4000 + 40 (T - 300) J/kgK, so the specific       *)
(* enthalpy relative to 300 K is  h(theta) = 4000 theta + 20 theta^2 with   *)
(* theta = T - 300 K.  For a LINEAR cp the mean heat capacity between two   *)
(* temperatures is the arithmetic mean of the two values, and the           *)
(* documented weighting (mass flow times mean heat capacity between stream  *)
(* and mix temperature) is exactly enthalpy conservation:                   *)
(*     sum_i m_i h(theta_i) = (sum_i m_i) h(theta_mix)                      *)
(* and a heat exchanger taking out q watts:  m (h(theta_in) - h(theta_out)) *)
(* = q.  With t = 1000 theta (milli-kelvin) and g(t) = h * 10^6 / 20 =      *)
(* 200000 t + t^2 everything is integer arithmetic in two limbs (Num).      *)
(***************************************************************************)
EXTENDS Num

(* t^2 for 0 <= t < 10^6 as a limb number *)
Sq(t) == LET a == t \div 1000  b == t % 1000 IN Norm(a * a, 2 * a * b * 1000 + b * b)
Scale(x, k) == Norm(k * x[2], k * x[3])
G(t) == Add(Scale(Scale(<<0, 0, t>>, 200), 1000), Sq(t))
(* sum_i m_i g(t_i) over a sequence of <<m, t>> *)
RECURSIVE SumG(_)
SumG(s) == IF s = <<>> THEN Zero ELSE Add(Scale(G(Head(s)[2]), Head(s)[1]), SumG(Tail(s)))
RECURSIVE SumM(_)
SumM(s) == IF s = <<>> THEN 0 ELSE Head(s)[1] + SumM(Tail(s))
(* |x| below hi * 10^6 ticks *)
Small(x, hi) == Abs(x[2]) < hi
(* tolerance: g'(t) = 200000 + 2 t < 3.3 * 10^5 per mK; 3 mK per unit of mass flow *)
TolFor(M) == M + 1
MixOK(streams, tmix) == Small(Sub(SumG(streams), Scale(G(tmix), SumM(streams))), TolFor(SumM(streams)))
(* q watts taken out of M kg/s:  M (g(tin) - g(tout)) = q * 10^6 / 20  (q a multiple of 20) *)
DutyOK(M, tin, tout, q) == Small(Sub(Scale(Sub(G(tin), G(tout)), M), <<0, q \div 20, 0>>), TolFor(M))
(* bounds: a mix lies between the coldest and the warmest stream *)
RECURSIVE MinT(_)
MinT(s) == IF Len(s) = 1 THEN s[1][2] ELSE LET r == MinT(Tail(s)) IN IF s[1][2] < r THEN s[1][2] ELSE r
RECURSIVE MaxT(_)
MaxT(s) == IF Len(s) = 1 THEN s[1][2] ELSE LET r == MaxT(Tail(s)) IN IF s[1][2] > r THEN s[1][2] ELSE r
=============================================================================
