SPECIFICATION Spec
CONSTANTS
  Kinds = {"P2G", "G2P", "G2G", "SETS", "SETL"}
  Levels = {0, 1, 2}
  Orders = {0, 1, 2}
  MaxCtrl = 4
  MaxIter = 3
  Relevant = "named"
  EmitOn = FALSE
INVARIANT InvFresh
INVARIANT InvOnce
INVARIANT InvNoBudgetFailure
INVARIANT InvSources
CHECK_DEADLOCK FALSE
