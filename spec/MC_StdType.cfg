SPECIFICATION Spec
CONSTANTS
  Names = {"T1", "T2"}
  DVals = {80, 100}
  KVals = {2, 15}
  UVals = {5}
  MaxOps = 3
  EmitOn = FALSE
INVARIANT InvFresh
INVARIANT InvTypeEqualsParams
PROPERTY LibOnlyByLibCalls
PROPERTY RowsStable
CHECK_DEADLOCK FALSE
