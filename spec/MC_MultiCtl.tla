---------------------------- MODULE MC_MultiCtl ----------------------------
(***************************************************************************)
(* The multi-energy control loop (pandapipes.multinet.run_control on top of *)
(* pandapower's control_implementation), transcribed:                       *)
(*                                                                          *)
(*   initialise every controller; initial calculation of every net;         *)
(*   for each level in ascending order:                                     *)
(*     loop: one control step = every controller of the level that is not   *)
(*           converged writes its value, one after the other in ascending   *)
(*           order; if any did, the nets RELEVANT to the level are          *)
(*           calculated and the loop repeats (at most MaxIter calculations);*)
(*           else the level is done.                                        *)
(*                                                                          *)
(* A coupling controller reads the INPUT of an element of its from-net and  *)
(* writes the input of an element of its to-net; an in-net setter writes an *)
(* input of its own net (the profile value of a time step).  Each is        *)
(* converged once it has written.  A net is relevant to a level if it owns  *)
(* one of the level's controllers or a coupling controller of the level     *)
(* names it (Relevant = "named": the pinned code; "first" shows what a      *)
(* narrower notion breaks).                                                 *)
(*                                                                          *)
(* Abstract state: ev[e] counts the writes into element input e, res[n] is  *)
(* the tuple of input versions the stored results of net n were calculated  *)
(* from, src[k] the version of its source element controller k converted.   *)
(* Property (C20): when the run ends every member net holds the results of  *)
(* a calculation with its final inputs, every controller has written        *)
(* exactly once, and a coupling controller all of whose source's writers    *)
(* come before it (lower level, or same level and lower order) converted    *)
(* the FINAL input of its source element.                                   *)
(***************************************************************************)
EXTENDS PPMultiCtl, TLC, Json

CONSTANTS Kinds, Levels, Orders, MaxCtrl, MaxIter, Relevant, EmitOn

(* a configuration: a subset of the kinds (at most MaxCtrl, at least one coupling), each with a level and an order *)
CtrlSets == UNION {{ {[kind |-> k, level |-> f[k][1], order |-> f[k][2]] : k \in K} : f \in [K -> Levels \X Orders]} :
                      K \in {K \in SUBSET Kinds : Cardinality(K) \in 1..MaxCtrl /\ \E k \in K : IsCoupling(k)}}
GoodCtrls(S) == \A a, b \in S : (a.level = b.level /\ a.order = b.order) => a = b      \* distinct orders within a level

VARIABLES ctrls, ev, res, applied, src, pc, lvl, count, failed
vars == <<ctrls, ev, res, applied, src, pc, lvl, count, failed>>

LevelList == {c.level : c \in ctrls}
CtrlsOf(l) == {c \in ctrls : c.level = l}
InputsOf(n) == [e \in {e \in Elems : NetOf(e) = n} |-> ev[e]]
NamedNets(l) == UNION {IF IsCoupling(c.kind) THEN {NetOf(IO(c.kind)[1]), NetOf(IO(c.kind)[2])} ELSE {NetOf(IO(c.kind)[2])} : c \in CtrlsOf(l)}
FirstOf(l) == CHOOSE c \in CtrlsOf(l) : \A d \in CtrlsOf(l) : c.order <= d.order
FirstNets(l) == LET c == FirstOf(l) IN IF IsCoupling(c.kind) THEN {NetOf(IO(c.kind)[1]), NetOf(IO(c.kind)[2])} ELSE {NetOf(IO(c.kind)[2])}
RelNets(l) == IF Relevant = "named" THEN NamedNets(l) ELSE FirstNets(l)

Init == /\ ctrls \in {S \in CtrlSets : GoodCtrls(S)}
        /\ ev = [e \in Elems |-> 0] /\ res = [n \in Nets |-> <<>>]
        /\ applied = {} /\ src = [k \in Kinds |-> -1]
        /\ pc = "init" /\ lvl = -1 /\ count = 0 /\ failed = FALSE

InitialRun == /\ pc = "init" /\ res' = [n \in Nets |-> InputsOf(n)]
              /\ pc' = "next_level" /\ UNCHANGED <<ctrls, ev, applied, src, lvl, count, failed>>
NextLevel == /\ pc = "next_level"
             /\ LET rest == {l \in LevelList : l > lvl} IN
                IF rest = {} THEN pc' = "done" /\ UNCHANGED lvl
                ELSE pc' = "step" /\ lvl' = CHOOSE l \in rest : \A m \in rest : l <= m
             /\ count' = 0 /\ UNCHANGED <<ctrls, ev, res, applied, src, failed>>
(* one control step: the not yet converged controllers of the level write one after the other in ascending order, *)
(* so a controller sees what those before it in the same step wrote                                               *)
ControlStep ==
    /\ pc = "step"
    /\ LET todo == {c \in CtrlsOf(lvl) : c \notin applied}
           before(c) == {d \in todo : d.order < c.order}
           seen(c, e) == ev[e] + Cardinality({d \in before(c) : IO(d.kind)[2] = e})
       IN IF todo = {} THEN pc' = "next_level" /\ UNCHANGED <<ev, applied, src>>
          ELSE /\ applied' = applied \cup todo
               /\ src' = [k \in Kinds |-> IF \E c \in todo : c.kind = k /\ IsCoupling(k)
                                           THEN seen(CHOOSE c \in todo : c.kind = k, IO(k)[1]) ELSE src[k]]
               /\ ev' = [e \in Elems |-> ev[e] + Cardinality({c \in todo : IO(c.kind)[2] = e})]
               /\ pc' = "evaluate"
    /\ UNCHANGED <<ctrls, res, lvl, count, failed>>
Evaluate == /\ pc = "evaluate"
            /\ res' = [n \in Nets |-> IF n \in RelNets(lvl) THEN InputsOf(n) ELSE res[n]]
            /\ count' = count + 1
            /\ IF count + 1 > MaxIter THEN failed' = TRUE /\ pc' = "done" ELSE failed' = failed /\ pc' = "step"
            /\ UNCHANGED <<ctrls, ev, applied, src, lvl>>
Finish == /\ pc = "done" /\ EmitOn
          /\ PrintT(ToJson([vp |-> "MCTL", ctrls |-> ctrls])) /\ UNCHANGED vars
Next == InitialRun \/ NextLevel \/ ControlStep \/ Evaluate \/ Finish
Spec == Init /\ [][Next]_vars

(* ---- what the loop must establish ---- *)
Done == pc = "done" /\ ~failed
InvFresh == Done => \A n \in Nets : res[n] = InputsOf(n)           \* every member net: results of its final inputs
InvOnce == Done => applied = ctrls /\ \A e \in Elems : ev[e] = Cardinality({c \in ctrls : IO(c.kind)[2] = e})
InvNoBudgetFailure == ~failed                                       \* one step and one calculation per level always suffice
InvSources == Done => \A c \in ctrls : (IsCoupling(c.kind) /\ WritersBefore(ctrls, c)) => src[c.kind] = ev[IO(c.kind)[1]]
Emit == (EmitOn /\ pc = "init") => PrintT(ToJson([vp |-> "MCTL", ctrls |-> ctrls]))
=============================================================================
