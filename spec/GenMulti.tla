------------------------------ MODULE GenMulti ------------------------------
(* coupling configurations of C20 and the model-level laws (round trip = product of efficiencies) *)
EXTENDS PPMulti, TLC, Json
VARIABLE k
Effs == {<<1, 2>>, <<3, 5>>, <<1, 1>>}
Configs == {[kind |-> kd, inp |-> i, sc |-> s, eff |-> e, h |-> <<10, 1>>, h2 |-> <<20, 1>>, vec |-> v, level |-> lv, eff2 |-> e2] :
              kd \in {"P2G", "G2P_gas", "G2P_power", "G2G"}, i \in {<<1, 1>>, <<3, 1>>, <<1, 4>>}, s \in {<<1, 1>>, <<2, 1>>},
              e \in Effs, v \in BOOLEAN, lv \in {0, 1}, e2 \in {<<1, 2>>, <<1, 1>>}}
Init == k \in Configs
Next == UNCHANGED k
Spec == Init /\ [][Next]_k
(* converting power to gas and back returns the product of the efficiencies (scaling 1) *)
InvRoundTrip == (k.kind = "P2G" /\ REq(k.sc, R(1))) =>
    REq(G2PGas(P2G(k.inp, R(1), k.eff, k.h), R(1), k.eff2, k.h), RMul(k.inp, RMul(k.eff, k.eff2)))
InvPowerLedInverse == (k.kind = "G2P_power" /\ REq(k.sc, R(1))) =>
    REq(G2PGas(G2PPower(k.inp, R(1), k.eff, k.h), R(1), k.eff, k.h), k.inp)
Emit == PrintT(ToJson([vp |-> "MULTI", k |-> k]))
=============================================================================
