------------------------------ MODULE PPRefHyd ------------------------------
(***************************************************************************)
(* Exact reference hydraulics for the DESIGNED liquid family (DESIGN D1).   *)
(*                                                                          *)
(* Inputs are chosen so that the documented liquid pressure-loss law        *)
(*   p_to = p_from + rho g (h_from - h_to) - (lambda L/D + zeta) m|m| /     *)
(*          (2 rho A^2)          lambda = 64/Re + lambda_turb(k/D)           *)
(* becomes integer arithmetic:  rho = 1000, A = 0.01 m2, Re = 6400 |m|,      *)
(* lambda_turb = 1/16, L = N D with N a multiple of 160, m integer kg/s:     *)
(*   drop [ubar] = 50 m|m| (N/16 + zeta) + N m / 2                           *)
(*   hydrostatic: 98100 ubar per metre;  v = m/10 m/s;  vdot = m/1000 m3/s   *)
(*   lambda = 1/16 + 1/(100 |m|)                                             *)
(* Friction models (s.fm, the pipeflow option friction_model): the line     *)
(* above is the documented nikuradse law (laminar 64/Re + rough-pipe term). *)
(* For colebrook  1/sqrt(l) = -2 log10(2.51/(Re sqrt(l)) + k/(3.71 D))  and   *)
(* swamee-jain  l = 0.25 / log10(k/(3.7 D) + 5.74/Re^0.9)^2  the roughness  *)
(* of each pipe is DESIGNED for its designed flow so that lambda = 1/16     *)
(* exactly (10^-2 = 2.51*4/Re + k/(3.71 D), resp. k/(3.7 D) + 5.74/Re^0.9): *)
(*   drop [ubar] = 50 m|m| (N/16 + zeta),   lambda = 1/16                   *)
(* A scenario is a tree of junctions (node 1 = feeder) plus chords; demands *)
(* and chord flows are chosen, the loss coefficient of every chord is       *)
(* DERIVED from the law so that the designed flows are the unique solution. *)
(* Pressures are integers in micro-bar, `pamb` is the oracle table of the   *)
(* barometric formula at the heights used (DESIGN D2).                      *)
(***************************************************************************)
EXTENDS Integers, Sequences, FiniteSets

Abs(x) == IF x < 0 THEN -x ELSE x

(* s.nodes[k] = [par, kind, rev, N, zeta, sec, h, d]   (k = 1: the feeder junction, par = 0)      *)
(* s.chords[i] = [a, b, kind, N, mc, sec, rev]           designed flow mc from a to b             *)
Nodes(s) == DOMAIN s.nodes
Children(s, k) == {c \in Nodes(s) : s.nodes[c].par = k}

RECURSIVE SumF(_, _)
SumF(f, S) == IF S = {} THEN 0 ELSE LET x == CHOOSE x \in S : TRUE IN f[x] + SumF(f, S \ {x})

ChordOut(s, k) == LET C == DOMAIN s.chords IN
    SumF([i \in C |-> IF s.chords[i].a = k THEN s.chords[i].mc ELSE 0], C)
    - SumF([i \in C |-> IF s.chords[i].b = k THEN s.chords[i].mc ELSE 0], C)

(* mass flow through the tree branch into node k (from its parent), kg/s *)
RECURSIVE Flow(_, _)
Flow(s, k) == s.nodes[k].d + ChordOut(s, k)
              + LET Ch == Children(s, k) IN SumF([c \in Ch |-> Flow(s, c)], Ch)

(* pressure drop in ubar of a branch carrying m *)
(* a pump with the designed linear characteristic lift = N bar - zeta/10 bar per kg/s (never negative, none for reverse flow) *)
PumpLift(N, zeta, m) == IF m < 0 THEN 0 ELSE LET l == N * 1000000 - zeta * 100000 * m IN IF l < 0 THEN 0 ELSE l
(* lam = 1: the laminar term 64/Re is part of lambda (nikuradse); lam = 0: lambda = 1/16 by design (colebrook, swamee-jain) *)
Fm(s) == IF "fm" \in DOMAIN s THEN s.fm ELSE "nikuradse"
LamOn(s) == IF Fm(s) = "nikuradse" THEN 1 ELSE 0
DropF(lam, kind, N, zeta, m) ==
    IF kind = "pipe" THEN 50 * m * Abs(m) * ((N \div 16) + zeta) + lam * ((N * m) \div 2)
    ELSE IF kind = "pump" THEN -PumpLift(N, zeta, m)
    ELSE 50 * m * Abs(m) * zeta                  \* valve, heat exchanger: lumped loss only
Drop(kind, N, zeta, m) == DropF(1, kind, N, zeta, m)

Hydro(s, ha, hb) == (s.pamb[ha] - s.pamb[hb]) + 98100 * (s.hm[ha] - s.hm[hb])
(* gauge pressure gained going from height index ha to hb at rest (barometric reference + column); *)
(* s.hm[i] = height in metres of height index i, s.pamb[i] = ambient pressure there in ubar          *)

(* gauge pressure of node k in ubar *)
RECURSIVE P(_, _)
P(s, k) == IF k = 1 THEN s.p0
           ELSE LET n == s.nodes[k]  pa == s.nodes[n.par]
                IN P(s, n.par) + Hydro(s, pa.h, n.h) - DropF(LamOn(s), n.kind, n.N, n.zeta, Flow(s, k))

(* the loss coefficient a chord must have, as a fraction <<num, den>>; admissible iff num >= 0 *)
ChordZeta(s, i) ==
    LET c == s.chords[i]
        dp == P(s, c.a) - P(s, c.b) + Hydro(s, s.nodes[c.a].h, s.nodes[c.b].h)     \* driving pressure a -> b
        fix == IF c.kind = "pipe" THEN 50 * c.mc * Abs(c.mc) * (c.N \div 16) + LamOn(s) * ((c.N * c.mc) \div 2) ELSE 0
    IN <<dp - fix, 50 * c.mc * Abs(c.mc)>>
ChordOK(s, i) == LET z == ChordZeta(s, i) IN s.chords[i].mc # 0 /\ z[2] # 0 /\ ((z[1] >= 0) = (z[2] > 0) \/ z[1] = 0)

Feed(s) == Flow(s, 1)           \* what the feeder supplies (kg/s)
AllPositive(s) == \A k \in Nodes(s) : P(s, k) > 100000      \* stay away from vacuum (0.1 bar)
NoZeroFlow(s) == (\A k \in Nodes(s) \ {1} : Flow(s, k) # 0)

(* lambda in 1e-9: 1/16 + 1/(100 |m|)  (m divides 10^7 for the admissible flows) *)
LambdaTick(m) == 62500000 + 10000000 \div Abs(m)
LambdaTickF(s, m) == 62500000 + LamOn(s) * (10000000 \div Abs(m))
FlowOKForLambda(m) == m # 0 /\ 10000000 % Abs(m) = 0
=============================================================================
