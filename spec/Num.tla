-------------------------------- MODULE Num --------------------------------
(***************************************************************************)
(* Logged numbers.  A logged number is a triple <<kind, hi, lo>>:           *)
(*   kind 0 finite: value = hi * 10^6 + lo ticks (hi, lo carry the sign,    *)
(*   |lo| < 10^6); 1 NaN; 2 +-infinity; 3 "there is no such result cell".   *)
(* TLC integers are 32 bit, so tick values are kept in two limbs and every  *)
(* operator below works limb-wise and renormalises.                         *)
(***************************************************************************)
EXTENDS Integers, Sequences, FiniteSets

LIMB == 1000000
IsNum(x) == x[1] = 0
IsNaN(x) == x[1] = 1
IsInf(x) == x[1] = 2
NoRes(x) == x[1] = 3
Finite(x) == x[1] = 0
Zero == <<0, 0, 0>>
NaNv == <<1, 0, 0>>

Abs(n) == IF n < 0 THEN -n ELSE n
Sgn(n) == IF n < 0 THEN -1 ELSE IF n > 0 THEN 1 ELSE 0

(* normalise a (hi, lo) pair with arbitrary lo (|lo| < 2^31) into sign-consistent limbs *)
Norm(hi, lo) ==
    LET c == IF lo >= 0 THEN lo \div LIMB ELSE -((-lo) \div LIMB)      \* truncating division
        l1 == lo - c * LIMB
        h1 == hi + c
    IN  IF h1 > 0 /\ l1 < 0 THEN <<0, h1 - 1, l1 + LIMB>>
        ELSE IF h1 < 0 /\ l1 > 0 THEN <<0, h1 + 1, l1 - LIMB>>
        ELSE <<0, h1, l1>>

Add(x, y) == Norm(x[2] + y[2], x[3] + y[3])
Neg(x) == <<x[1], -x[2], -x[3]>>
Sub(x, y) == Add(x, Neg(y))

RECURSIVE SumSeq(_)
SumSeq(s) == IF s = <<>> THEN Zero ELSE Add(Head(s), SumSeq(Tail(s)))

(* |x| <= n ticks, for a small natural n (n < 10^6) *)
AbsLeq(x, n) == (x[2] = 0 /\ Abs(x[3]) <= n)
(* |x - y| <= n ticks *)
Near(x, y, n) == AbsLeq(Sub(x, y), n)

Less(x, y) == LET d == Sub(x, y) IN d[2] < 0 \/ (d[2] = 0 /\ d[3] < 0)
Leq(x, y) == ~Less(y, x)

(* magnitude class: number of ticks of |x| in units of 10^6 ticks, rounded up (for relative slack) *)
MagHi(x) == Abs(x[2]) + 1

(* set -> sequence (any order) *)
RECURSIVE SetToSeq(_)
SetToSeq(S) == IF S = {} THEN <<>> ELSE LET x == CHOOSE x \in S : TRUE IN <<x>> \o SetToSeq(S \ {x})
=============================================================================
