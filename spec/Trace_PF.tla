------------------------------ MODULE Trace_PF ------------------------------
(***************************************************************************)
(* Trace specification for single pipeflow calls.                           *)
(* Each case in the trace file is one call of pandapipes.pipeflow on a real *)
(* net: the projected description, the outcome (returned / raised) and the  *)
(* projected result tables.  The clauses below are the property statements; *)
(* TLC evaluates them on every case, the harness only reports what TLC says. *)
(***************************************************************************)
EXTENDS PPConn, Num, TLC, Json, IOUtils

Cases == ndJsonDeserialize(IOEnv.TRACE_FILE)

VARIABLES ci, nfail
vars == <<ci, nfail>>

Returned(c) == c.outcome = "returned"
RaisedNC(c) == c.outcome = "PipeflowNotConverged"

(* ------------------------------ C04 ---------------------------------- *)
(* a junction has a pressure result iff it is supplied *)
C04_Junctions(c) ==
    {<<"C04.junction", "", ToString(j.lab)>> : j \in {j \in JRows(c.net) :
        IsNum(j.p) # (j.lab \in HydSupplied(c.net))}}
(* a branch row has hydraulic results iff it is in service and its junctions are supplied;      *)
(* never a mixture of numbers and NaN *)
C04_Branches(c) ==
    LET R == HydReached(c.net) IN
    {<<IF e.hydall = "mix" THEN "C04.branch_mixed" ELSE "C04.branch",
       IF e.hydall = "mix" THEN e.mixsig ELSE e.tbl, ToString(e.lab)>> : e \in {e \in ERows(c.net) :
        e.hydall # (IF BranchCalcR(c.net, R, e) THEN "num" ELSE "nan")}}
(* loads at unsupplied junctions are not served (NaN); served ones report a number *)
C04_Loads(c) ==
    LET R == HydReached(c.net) IN
    {<<"C04.load", n.tbl, ToString(n.lab)>> : n \in {n \in NRows(c.net) :
        n.tbl \in LoadTables /\ IsNum(n.m) # LoadServedR(c.net, R, n)}}
(* pressure-fixing external grids report their feed-in iff in service and their junction is     *)
(* supplied; everything else reports NaN.  Failure entries are <<clause, signature, detail..>>. *)
C04_Feeders(c) ==
    LET R == HydReached(c.net)
        want(n) == n.svc /\ n.typ \in PTypes /\ Jn(n.j) \in R
        G == NERows(c.net, "ext_grid") IN
    {<<"C04.ext_grid_missing", "", ToString(n.lab)>> : n \in {n \in G : want(n) /\ ~IsNum(n.m)}}
    \cup {<<"C04.ext_grid_spurious", "", ToString(n.lab)>> :
              n \in {n \in G : ~(n.svc /\ n.typ \in PTypes) /\ IsNum(n.m)}}
    \cup {<<"C04.ext_grid_unsupplied", IF n.m = Zero THEN "zero" ELSE "nonzero", ToString(n.lab)>> :
              n \in {n \in G : n.svc /\ n.typ \in PTypes /\ Jn(n.j) \notin R /\ IsNum(n.m)}}
(* nothing supplied => the calculation fails, it does not return (which exception is raised is  *)
(* C05's business) *)
C04_NoSupply(c) ==
    IF HydSupplied(c.net) = {} /\ Returned(c) THEN {<<"C04.nosupply", c.oclass, "">>} ELSE {}

(* The results of the supplied part equal those of the net with everything unsupplied or out of *)
(* service deleted.  Prune is the specification's notion of that deletion; the harness deletes  *)
(* the rows whose results were NaN and the clause first checks that this is the same thing.     *)
KeepJ(net, R) == {j \in JRows(net) : Jn(j.lab) \in R}
KeepE(net, R) ==
    LET calc == {e \in ERows(net) : BranchCalcR(net, R, e)}
    IN calc \cup {v \in ERows(net) : IsPipeValve(v) /\ Jn(v.a) \in R
                                     /\ \E p \in calc : p.tbl = "pipe" /\ p.lab = v.b}
KeepN(net, R) == {n \in NRows(net) : n.svc /\ Jn(n.j) \in R}
EKey(e) == <<e.tbl, e.lab, e.a, e.b, e.et, e.svc>>
NKey(n) == <<n.tbl, n.lab, n.j>>
PruneTol == 200    \* ticks of 1e-9 (bar, kg/s): both runs are solved to 1e-10
C04_Prune(c) ==
    IF ~("pnet" \in DOMAIN c) THEN {} ELSE
    LET R == HydReached(c.net)
        sameRows == /\ {j.lab : j \in KeepJ(c.net, R)} = JLabs(c.pnet)
                    /\ {EKey(e) : e \in KeepE(c.net, R)} = {EKey(e) : e \in ERows(c.pnet)}
                    /\ {NKey(n) : n \in KeepN(c.net, R)} = {NKey(n) : n \in NRows(c.pnet)}
        eqv(x, y) == (IsNum(x) /\ IsNum(y) /\ Near(x, y, PruneTol)) \/ (~IsNum(x) /\ x = y)
    IN IF ~sameRows THEN {<<"C04.prune_rows", "", "">>}
       ELSE IF c.poutcome # "returned" THEN {<<"C04.prune_outcome", c.poclass, "">>}
       ELSE {<<"C04.prune_junction", "", ToString(j.lab)>> : j \in {j \in KeepJ(c.net, R) :
                  \E k \in JRows(c.pnet) : k.lab = j.lab /\ ~eqv(j.p, k.p)}}
            \cup {<<"C04.prune_branch", e.tbl, ToString(e.lab)>> : e \in {e \in KeepE(c.net, R) :
                  \E k \in ERows(c.pnet) : EKey(k) = EKey(e) /\
                      ~(eqv(e.mf, k.mf) /\ eqv(e.mt, k.mt) /\ eqv(e.pf, k.pf) /\ eqv(e.pt, k.pt))}}
            \cup {<<"C04.prune_nodeel", n.tbl, ToString(n.lab)>> : n \in {n \in KeepN(c.net, R) :
                  \E k \in NRows(c.pnet) : NKey(k) = NKey(n) /\ ~eqv(n.m, k.m)}}

(* thermal pattern (modes with a thermal stage): a branch row has temperatures iff it is thermally calculated; *)
(* a junction outside the thermally supplied part reports the ambient temperature, never a start value or NaN *)
C04_Thermal(c) ==
    IF c.mode \notin {"sequential", "bidirectional"} THEN {} ELSE
    {<<"C04.thermal_branch", e.tbl, ToString(e.lab)>> : e \in {e \in ERows(c.net) :
        e.th # (IF BranchThermCalc(c.net, e) THEN "num" ELSE "nan")}}
    \cup {<<"C04.thermal_junction", "", ToString(j.lab)>> : j \in {j \in JRows(c.net) :
        j.lab \notin ThermSupplied(c.net) /\ j.t # c.ambient}}
    \cup {<<"C04.thermal_junction_missing", "", ToString(j.lab)>> : j \in {j \in JRows(c.net) :
        j.lab \in ThermSupplied(c.net) /\ ~IsNum(j.t)}}
C04(c) == IF Returned(c) /\ "C04T" \in Rng(c.check) THEN C04_Thermal(c) ELSE IF Returned(c)
          THEN C04_Junctions(c) \cup C04_Branches(c) \cup C04_Loads(c) \cup C04_Feeders(c) \cup C04_NoSupply(c) \cup C04_Prune(c)
          ELSE C04_NoSupply(c)

(* ------------------------------ C01 ---------------------------------- *)
(* Mass balance from the REPORTED flows at every junction that has a pressure result:          *)
(* what leaves through branch ends + consumption - injection + reported feed-in = 0.           *)
(* A pipe end behind a junction-pipe valve is attached to the valve's internal node, not to    *)
(* the junction, and the valve stands in for it.                                               *)
AtFrom(net, e, l) == IF e.tbl = "pipe" THEN PipeEnd(net, e, e.a) = Jn(l) ELSE e.a = l
AtTo(net, e, l) == IF e.tbl = "pipe" THEN PipeEnd(net, e, e.b) = Jn(l)
                   ELSE IF IsPipeValve(e) THEN FALSE ELSE e.b = l
BalanceTerms(net, l) ==
    SetToSeq({<<"f", e.tbl, e.lab, e.mf>> : e \in {e \in ERows(net) : e.hydall = "num" /\ AtFrom(net, e, l)}}
             \cup {<<"t", e.tbl, e.lab, e.mt>> : e \in {e \in ERows(net) : e.hydall = "num" /\ AtTo(net, e, l)}}
             \cup {<<"n", n.tbl, n.lab, IF n.tbl = "source" THEN Neg(n.m) ELSE n.m>> :
                       n \in {n \in NRows(net) : n.j = l /\ IsNum(n.m)}})
C01_Tol == 40          \* ticks of 1e-9 kg/s per term (linear-solve round-off; mass-flow tolerance is 1e-5)
C01_Junctions(c) ==
    {<<"C01.junction_balance", "", ToString(j.lab)>> : j \in {j \in JRows(c.net) : IsNum(j.p) /\
        LET T == BalanceTerms(c.net, j.lab)
            tot == SumSeq([i \in DOMAIN T |-> T[i][4]])
        IN \E i \in DOMAIN T : ~IsNum(T[i][4]) \/ ~AbsLeq(tot, C01_Tol * (Len(T) + 1))}}
(* over the whole net: total reported feed-in = total served consumption - injection *)
C01_Global(c) ==
    LET T == SetToSeq({<<n.tbl, n.lab, IF n.tbl = "source" THEN Neg(n.m) ELSE n.m>> : n \in {n \in NRows(c.net) : IsNum(n.m)}})
        tot == SumSeq([i \in DOMAIN T |-> T[i][3]])
    IN IF \E e \in ERows(c.net) : e.tbl \in CircPumpTables THEN {}      \* closed loops have no external feed-in
       ELSE IF ~AbsLeq(tot, C01_Tol * (Len(T) + 1)) THEN {<<"C01.global_balance", "", "">>} ELSE {}
C01(c) == IF Returned(c) THEN C01_Junctions(c) \cup C01_Global(c) ELSE {}

(* ------------------------------ C03 ---------------------------------- *)
(* prescribed values are met (ticks of 1e-9; the runs are solved to 1e-10) *)
C03_Tol == 300
JP(net, l) == (CHOOSE j \in JRows(net) : j.lab = l).p
(* pressure-fixing feeders of junction l: in-service p/pt ext_grids and circulation pumps feeding into l *)
FixValues(net, l) ==
    SetToSeq({<<"eg", n.lab, n.pset>> : n \in {n \in NERows(net, "ext_grid") : n.j = l /\ n.svc /\ n.typ \in PTypes}}
             \cup {<<e.tbl, e.lab, e.set2>> : e \in {e \in ERows(net) : e.tbl \in CircPumpTables /\ e.b = l /\ e.svc /\ e.typ \in PTypes}})
C03_Fixed(c) ==
    {<<"C03.fixed_pressure", "", ToString(j.lab)>> : j \in {j \in JRows(c.net) : IsNum(j.p) /\
        LET F == FixValues(c.net, j.lab) IN Len(F) > 0 /\
            (* mean of the fixed values: n * p = sum *)
            ~AbsLeq(Sub(SumSeq([i \in DOMAIN F |-> j.p]), SumSeq([i \in DOMAIN F |-> F[i][3]])), C03_Tol * Len(F))}}
(* a controlled junction must not also be fixed by a feeder or by a second active controller (over-determined) *)
WellPosedPC(net, e) == Len(FixValues(net, e.cj)) = 0 /\
    \A f \in ERows(net) : (f.tbl = "press_control" /\ f.ca /\ f.svc /\ f.cj = e.cj) => f.lab = e.lab
(* a compressor with forward flow produces its absolute pressure ratio rn/rd: rd * (p_to + p_amb(to)) = rn * (p_from + p_amb(from)); *)
(* the ambient pressures are the oracle values of the documented barometric formula at the junction heights                      *)
(* (a compressor between junctions at different heights additionally carries the weight of the gas column, like every branch:  *)
(* the exact ratio is only promised for a machine whose two ends are at the same height)                                        *)
JAmb(net, l) == (CHOOSE j \in JRows(net) : j.lab = l).pamb
JH(net, l) == (CHOOSE j \in JRows(net) : j.lab = l).h
Scale(x, k) == Norm(k * x[2], k * x[3])
ForwardFlow(e) == IsNum(e.mf) /\ Less(<<0, 0, 1000>>, e.mf)           \* more than 1e-6 kg/s
CompressorOK(net, e) ==
    LET pa == Add(e.pf, JAmb(net, e.a))  pb == Add(e.pt, JAmb(net, e.b))
    IN Near(Scale(pb, e.rd), Scale(pa, e.rn), C03_Tol * (e.rn + e.rd))
C03_Branches(c) ==
    LET R == HydReached(c.net) IN
    {<<"C03.set_point", e.tbl, ToString(e.lab)>> : e \in {e \in ERows(c.net) : e.hydall = "num" /\
        \/ (e.tbl = "flow_control" /\ e.ca /\ ~Near(e.mf, e.set1, C03_Tol))
        \/ (e.tbl = "compressor" /\ e.rd > 0 /\ ForwardFlow(e) /\ JH(c.net, e.a) = JH(c.net, e.b) /\ ~CompressorOK(c.net, e))
        \/ (e.tbl = "circ_pump_mass" /\ ~Near(e.mf, e.set1, C03_Tol))
        \/ (e.tbl = "circ_pump_pressure" /\ JH(c.net, e.a) = JH(c.net, e.b) /\ ~Near(Sub(e.pt, e.pf), e.set1, C03_Tol))
        \/ (e.tbl = "press_control" /\ e.ca /\ e.svc /\ IsNum(JP(c.net, e.cj)) /\ WellPosedPC(c.net, e)
                /\ ~Near(JP(c.net, e.cj), e.set1, C03_Tol))}}
C03_Loads(c) ==
    {<<"C03.load", n.tbl, ToString(n.lab)>> : n \in {n \in NRows(c.net) : n.tbl \in LoadTables /\ IsNum(n.m) /\ ~Near(n.m, n.want, 2)}}
C03(c) == IF Returned(c) THEN C03_Fixed(c) \cup C03_Branches(c) \cup C03_Loads(c) ELSE {}

(* ------------------------- C06 / C09 (relational, arbitrary nets) ------------------------- *)
(* c.net and c.rnet describe the same physical system: c.rel.jmap / c.rel.emap map junction and  *)
(* branch labels of net to those of rnet (a relabelling with shuffled rows), c.rel.rev lists the *)
(* branches whose from/to were swapped.  Corresponding elements must report the same results,   *)
(* a swapped branch with from/to cells exchanged and the flow sign flipped.                     *)
RelTol == 300
RelTolV == 50000        \* velocities (1e-9 m/s ticks): round-off of a zero flow is amplified by 1/(rho A)
EqV(x, y) == (IsNum(x) /\ IsNum(y) /\ Near(x, y, RelTolV)) \/ (~IsNum(x) /\ ~IsNum(y))
EqN(x, y) == (IsNum(x) /\ IsNum(y) /\ Near(x, y, RelTol)) \/ (~IsNum(x) /\ ~IsNum(y))
PairsFn(S) == [k \in {q[1] : q \in S} |-> (CHOOSE q \in S : q[1] = k)[2]]
(* a pump at rest sits on the discontinuity of its characteristic (shut-off head for +0, no lift for -0): *)
(* which side round-off falls on is not a property of the network description                            *)
PumpAtRest(net) == \E e \in ERows(net) : e.tbl = "pump" /\ IsNum(e.mf) /\ AbsLeq(e.mf, 1000)
RelClauses(c, prop) ==
    IF Returned(c) /\ c.routcome = "returned" /\ (PumpAtRest(c.net) \/ PumpAtRest(c.rnet)) THEN {} ELSE
    IF ~Returned(c) \/ c.routcome # "returned" THEN
        (* a run that does not converge is not judged (the properties speak about converged runs); any other difference is *)
        (IF Returned(c) # (c.routcome = "returned") /\ ~RaisedNC(c) /\ c.routcome # "PipeflowNotConverged"
         THEN {<<prop \o ".outcome_differs", c.routcome, "">>} ELSE {})
    ELSE
    LET jm == PairsFn({<<q[1], q[2]>> : q \in Rng(c.rel.jmap)})
        em == PairsFn({<<<<q[1], q[2]>>, q[3]>> : q \in Rng(c.rel.emap)})
        rev == {<<q[1], q[2]>> : q \in Rng(c.rel.rev)}
        RJ(l) == CHOOSE j \in JRows(c.rnet) : j.lab = jm[l]
        RE(e) == CHOOSE f \in ERows(c.rnet) : f.tbl = e.tbl /\ f.lab = em[<<e.tbl, e.lab>>]
    IN {<<prop \o ".junction", "", ToString(j.lab)>> : j \in {j \in JRows(c.net) : ~EqN(j.p, RJ(j.lab).p) \/ ~EqN(j.t, RJ(j.lab).t)}}
       \cup {<<prop \o ".branch", e.tbl, ToString(e.lab)>> : e \in {e \in ERows(c.net) :
              LET f == RE(e)  sw == <<e.tbl, e.lab>> \in rev IN
              IF ~sw THEN ~(EqN(e.mf, f.mf) /\ EqN(e.mt, f.mt) /\ EqN(e.pf, f.pf) /\ EqN(e.pt, f.pt) /\ EqV(e.v, f.v)
                            /\ EqN(e.vd, f.vd) /\ EqN(e.tf, f.tf) /\ EqN(e.tt, f.tt) /\ e.hydall = f.hydall
                            /\ \A i \in DOMAIN e.gx : (IF i \in {3, 4} THEN EqV(e.gx[i], f.gx[i]) ELSE EqN(e.gx[i], f.gx[i])))
              ELSE ~(EqN(e.mf, f.mt) /\ EqN(e.mt, f.mf) /\ EqN(e.pf, f.pt) /\ EqN(e.pt, f.pf)
                     /\ EqV(e.v, IF IsNum(f.v) THEN Neg(f.v) ELSE f.v) /\ EqN(e.vd, IF IsNum(f.vd) THEN Neg(f.vd) ELSE f.vd)
                     /\ EqN(e.tf, f.tt) /\ EqN(e.tt, f.tf) /\ e.hydall = f.hydall)}}

(* ------------------------------ C17 (subnet) ---------------------------------- *)
(* select_subnet on the junctions of the supplied part: the subnet holds exactly the elements all of whose      *)
(* junctions are selected (a junction-pipe valve with its pipe), and a pipeflow on it reproduces the region's   *)
(* results.                                                                                                     *)
JRefsOf(e) == {e.a} \cup (IF IsPipeValve(e) THEN {} ELSE {e.b}) \cup (IF e.tbl = "press_control" THEN {e.cj} ELSE {})
SubnetE(net, S) ==
    LET keptP == {e.lab : e \in {e \in ERows(net) : e.tbl = "pipe" /\ JRefsOf(e) \subseteq S}}
    IN {e \in ERows(net) : JRefsOf(e) \subseteq S /\ (IsPipeValve(e) => e.b \in keptP)}
C17_Subnet(c) ==
    IF ~("snet" \in DOMAIN c) THEN {} ELSE
    LET S == HydSupplied(c.net)
        rowsOK == /\ JLabs(c.snet) = S
                  /\ {EKey(e) : e \in SubnetE(c.net, S)} = {EKey(e) : e \in ERows(c.snet)}
                  /\ {NKey(n) : n \in {n \in NRows(c.net) : n.j \in S}} = {NKey(n) : n \in NRows(c.snet)}
        eqv(x, y) == (IsNum(x) /\ IsNum(y) /\ Near(x, y, PruneTol)) \/ (~IsNum(x) /\ ~IsNum(y))
    IN IF ~rowsOK THEN {<<"C17.subnet_rows", "", "">>}
       ELSE IF c.soutcome # "returned" THEN (IF c.soutcome = "PipeflowNotConverged" THEN {} ELSE {<<"C17.subnet_outcome", c.soclass, "">>})
       ELSE {<<"C17.subnet_junction", "", ToString(j.lab)>> : j \in {j \in JRows(c.net) : j.lab \in S /\
                  \E k \in JRows(c.snet) : k.lab = j.lab /\ ~eqv(j.p, k.p)}}
            \cup {<<"C17.subnet_branch", e.tbl, ToString(e.lab)>> : e \in {e \in SubnetE(c.net, S) :
                  \E k \in ERows(c.snet) : EKey(k) = EKey(e) /\ ~(eqv(e.mf, k.mf) /\ eqv(e.pf, k.pf) /\ eqv(e.pt, k.pt))}}

(* ------------------------------ C05 (result side) -------------------- *)
(* a failed run leaves no number in any result table *)
C05_FailedEmpty(c) ==
    IF Returned(c) THEN {} ELSE
      {<<"C05.failed_not_empty", c.oclass, "junction", ToString(j.lab)>> : j \in {j \in JRows(c.net) : IsNum(j.p) \/ IsNum(j.t)}}
      \cup {<<"C05.failed_not_empty", c.oclass, e.tbl, ToString(e.lab)>> : e \in {e \in ERows(c.net) : e.hydall \notin {"nan", "nores"}}}
      \cup {<<"C05.failed_not_empty", c.oclass, n.tbl, ToString(n.lab)>> : n \in {n \in NRows(c.net) : IsNum(n.m)}}

Failures(c) ==
    (IF "C04" \in Rng(c.check) THEN C04(c) ELSE {})
    \cup (IF "C01" \in Rng(c.check) THEN C01(c) ELSE {})
    \cup (IF "C03" \in Rng(c.check) THEN C03(c) ELSE {})
    \cup (IF "C06R" \in Rng(c.check) THEN RelClauses(c, "C06") ELSE {})
    \cup (IF "C09R" \in Rng(c.check) THEN RelClauses(c, "C09") ELSE {})
    \cup (IF "C17S" \in Rng(c.check) /\ Returned(c) THEN C17_Subnet(c) ELSE {})
    \cup (IF "C07R" \in Rng(c.check) THEN RelClauses(c, "C07") ELSE {})
    \cup (IF "C09S" \in Rng(c.check) THEN RelClauses(c, "C09.start_temperature") ELSE {})
    \cup (IF "C05" \in Rng(c.check) THEN C05_FailedEmpty(c) ELSE {})

(* ------------------------------ machine ------------------------------ *)
Init == ci = 0 /\ nfail = 0
Step ==
    /\ ci < Len(Cases)
    /\ ci' = ci + 1
    /\ LET c == Cases[ci + 1]
           f == Failures(c)
       IN /\ nfail' = nfail + (IF f = {} THEN 0 ELSE 1)
          /\ IF f = {} THEN TRUE ELSE PrintT(ToJson([vp |-> "FAIL", id |-> c.id, clauses |-> SetToSeq(f)]))
Done == ci = Len(Cases) /\ UNCHANGED vars
Next == Step \/ Done
Spec == Init /\ [][Next]_vars

(* every case was consumed *)
Accepted == TLCGet("stats").diameter - 1 = Len(Cases)
Report == PrintT(ToJson([vp |-> "SUMMARY", cases |-> Len(Cases), consumed |-> TLCGet("stats").diameter - 1]))
Post == Report /\ Accepted
=============================================================================
