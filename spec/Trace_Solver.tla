---------------------------- MODULE Trace_Solver ----------------------------
(***************************************************************************)
(* Trace validation of the pipeflow transaction's solver stages.            *)
(* A case is the hook event stream of one pipeflow call (or of one scripted *)
(* run of the iteration driver): call, iter*, stage_end, (iter*, stage_end)* *)
(* followed by the outcome.  The trace machine tracks the current stage and *)
(* evaluates the C05 clauses at every event; the damping schedule is        *)
(* compared with the transcription in PPSolver as a conformance NOTE only.  *)
(***************************************************************************)
EXTENDS PPSolver, Json, IOUtils, TLC, SequencesExt

Cases == ndJsonDeserialize(IOEnv.TRACE_FILE)
TolRank == 1000

VARIABLES ci, ei, nit, lastit, prevErrs, allconv, nstages, bad
vars == <<ci, ei, nit, lastit, prevErrs, allconv, nstages, bad>>
(* nit: iter events seen in the current stage; lastit: the last of them; allconv: every finished  *)
(* stage so far converged; nstages: finished stages                                               *)

NoIt == [none |-> TRUE]
Init == ci = 1 /\ ei = 1 /\ nit = 0 /\ lastit = NoIt /\ prevErrs = <<>> /\ allconv = TRUE
        /\ nstages = 0 /\ bad = {}

Fail(c, f) == IF f = {} THEN TRUE
              ELSE PrintT(ToJson([vp |-> "FAIL", id |-> c.id, ev |-> ei, clauses |-> SetToSeq(f)]))

IterClauses(c, e) ==
    (IF e.niter # nit THEN {<<"C05.iter_numbering", e.stage>>} ELSE {})
    \cup (IF e.converged /\ ~WithinTol(e.errs, e.res, TolRank)
          THEN {<<"C05.converged_outside_tolerance", e.stage>>} ELSE {})
    (* a residual vector holding NaN is not within any tolerance, whatever norm the driver forms of it *)
    \cup (IF e.converged /\ "res_nan" \in DOMAIN e /\ e.res_nan
          THEN {<<"C05.converged_outside_tolerance", e.stage \o ":nan_residual">>} ELSE {})
    \cup (IF e.converged /\ e.method = "automatic" /\ ~e.alpha_used_is1
          THEN {<<"C05.converged_on_damped_step", e.stage>>} ELSE {})
IterNotes(c, e) ==
    \* conformance with the transcribed convergence decision (not a property clause)
    LET prev == IF nit = 0 THEN e.errs ELSE prevErrs
        eu == IF e.alpha_used_is1 THEN 0 ELSE 1
        en == IF e.alpha_next_is1 THEN 0 ELSE 1
    IN IF e.converged # ConvergedRequired(e.method, eu, en, e.errs, e.res, TolRank)
       THEN {<<"NOTE.decision_differs_from_model", e.stage>>} ELSE {}

StageEndClauses(c, e) ==
    (IF e.niter # nit THEN {<<"C05.iteration_count", e.stage>>} ELSE {})
    \cup (IF e.niter > e.maxiter THEN {<<"C05.budget_exceeded", e.stage>>} ELSE {})
    (* the limit of a stage is the documented option of THAT stage (max_iter_hyd / max_iter_therm / max_iter_bidirect) as resolved for the call *)
    \cup (IF "optiter" \in DOMAIN e /\ e.optiter >= 0 /\ e.maxiter # e.optiter THEN {<<"C05.stage_limit_not_the_stage_option", e.stage>>} ELSE {})
    \cup (IF "optiter" \in DOMAIN e /\ e.optiter >= 0 /\ e.niter > e.optiter THEN {<<"C05.budget_exceeded", e.stage>>} ELSE {})
    \cup (IF ~e.converged /\ e.niter # e.maxiter THEN {<<"C05.gave_up_before_budget", e.stage>>} ELSE {})
    \cup (IF e.converged /\ (nit = 0 \/ ("none" \in DOMAIN lastit) \/ ~lastit.converged)
          THEN {<<"C05.converged_without_converged_iteration", e.stage>>} ELSE {})

(* at the end of the event stream: the outcome must match the stages *)
EndClauses(c) ==
    IF c.kind = "driver" THEN {} ELSE
    (IF c.outcome = "returned" /\ ~allconv THEN {<<"C05.returned_unconverged", c.oclass>>} ELSE {})
    \cup (IF c.outcome = "returned" /\ ~c.flag_converged THEN {<<"C05.flag_false_after_return", c.oclass>>} ELSE {})
    \cup (IF c.outcome # "returned" /\ c.flag_converged THEN {<<"C05.flag_true_after_failure", c.oclass>>} ELSE {})
    \cup (IF ~allconv /\ c.outcome # "PipeflowNotConverged" THEN {<<"C05.unconverged_not_raised", c.oclass>>} ELSE {})
    \cup (IF c.outcome \notin {"returned", "PipeflowNotConverged", "usage_error"}
          THEN {<<"C05.other_exception", c.sig>>} ELSE {})
    \cup (IF c.outcome # "returned" /\ c.numbers_in_results > 0
          THEN {<<"C05.failed_not_empty", c.oclass>>} ELSE {})
    \cup (IF c.outcome = "returned" /\ c.nonfinite_in_supplied > 0
          THEN {<<"C05.returned_nonfinite", c.oclass>>} ELSE {})

Step ==
    /\ ci <= Len(Cases) /\ ei <= Len(Cases[ci].events)
    /\ LET c == Cases[ci]  e == c.events[ei] IN
       /\ ei' = ei + 1 /\ ci' = ci
       /\ IF e.ev = "iter" THEN
             LET f == IterClauses(c, e) \cup IterNotes(c, e) IN
             /\ bad' = f /\ Fail(c, f)
             /\ nit' = nit + 1 /\ lastit' = e /\ prevErrs' = e.errs
             /\ UNCHANGED <<allconv, nstages>>
          ELSE IF e.ev = "stage_end" THEN
             LET f == StageEndClauses(c, e) IN
             /\ bad' = f /\ Fail(c, f)
             /\ nit' = 0 /\ lastit' = NoIt /\ prevErrs' = <<>>
             /\ allconv' = (allconv /\ e.converged) /\ nstages' = nstages + 1
          ELSE /\ bad' = {} /\ UNCHANGED <<nit, lastit, prevErrs, allconv, nstages>>
EndCase ==
    /\ ci <= Len(Cases) /\ ei > Len(Cases[ci].events)
    /\ LET c == Cases[ci]  f == EndClauses(c) IN bad' = f /\ Fail(c, f)
    /\ ci' = ci + 1 /\ ei' = 1 /\ nit' = 0 /\ lastit' = NoIt /\ prevErrs' = <<>> /\ allconv' = TRUE /\ nstages' = 0
Next == Step \/ EndCase
Spec == Init /\ [][Next]_vars

TotalEvents == FoldLeft(LAMBDA acc, c : acc + Len(c.events), 0, Cases)
Post == /\ PrintT(ToJson([vp |-> "SUMMARY", cases |-> Len(Cases), events |-> TotalEvents,
                          diameter |-> TLCGet("stats").diameter]))
        /\ TLCGet("stats").diameter = TotalEvents + Len(Cases) + 1
=============================================================================
