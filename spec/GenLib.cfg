SPECIFICATION Spec
INVARIANT InvIntegral
INVARIANT InvTableReproduced
INVARIANT InvPump
INVARIANT InvMixture
CHECK_DEADLOCK FALSE
