-------------------------------- MODULE Rat --------------------------------
(* rationals <<num, den>> with den > 0, small magnitudes (TLC integers are 32 bit) *)
EXTENDS Integers
RECURSIVE Gcd(_, _)
Gcd(a, b) == IF b = 0 THEN (IF a < 0 THEN -a ELSE a) ELSE Gcd(b, a % b)
RNorm(q) == LET g == Gcd(IF q[1] < 0 THEN -q[1] ELSE q[1], q[2]) IN IF g = 0 THEN <<0, 1>> ELSE <<q[1] \div g, q[2] \div g>>
R(n) == <<n, 1>>
RAdd(a, b) == RNorm(<<a[1] * b[2] + b[1] * a[2], a[2] * b[2]>>)
RSub(a, b) == RNorm(<<a[1] * b[2] - b[1] * a[2], a[2] * b[2]>>)
RMul(a, b) ==      \* cross-reduce first: keeps intermediate products inside 32 bit
    LET g1 == Gcd(IF a[1] < 0 THEN -a[1] ELSE a[1], b[2])  g2 == Gcd(IF b[1] < 0 THEN -b[1] ELSE b[1], a[2])
        x1 == IF g1 = 0 THEN a[1] ELSE a[1] \div g1   y2 == IF g1 = 0 THEN b[2] ELSE b[2] \div g1
        y1 == IF g2 = 0 THEN b[1] ELSE b[1] \div g2   x2 == IF g2 = 0 THEN a[2] ELSE a[2] \div g2
    IN RNorm(<<x1 * y1, x2 * y2>>)
RDiv(a, b) == IF b[1] > 0 THEN RNorm(<<a[1] * b[2], a[2] * b[1]>>) ELSE RNorm(<<-(a[1] * b[2]), a[2] * (-b[1])>>)
REq(a, b) == a[1] * b[2] = b[1] * a[2]
RLe(a, b) == a[1] * b[2] <= b[1] * a[2]
RLt(a, b) == a[1] * b[2] < b[1] * a[2]
RHalf(a) == RNorm(<<a[1], a[2] * 2>>)
=============================================================================
