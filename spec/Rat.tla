-------------------------------- MODULE Rat --------------------------------
(* rationals <<num, den>> with den > 0, small magnitudes (TLC integers are 32 bit) *)
EXTENDS Integers
RECURSIVE Gcd(_, _)
Gcd(a, b) == IF b = 0 THEN (IF a < 0 THEN -a ELSE a) ELSE Gcd(b, a % b)
RNorm(q) == LET g == Gcd(IF q[1] < 0 THEN -q[1] ELSE q[1], q[2]) IN IF g = 0 THEN <<0, 1>> ELSE <<q[1] \div g, q[2] \div g>>
R(n) == <<n, 1>>
RAdd(a, b) == RNorm(<<a[1] * b[2] + b[1] * a[2], a[2] * b[2]>>)
RSub(a, b) == RNorm(<<a[1] * b[2] - b[1] * a[2], a[2] * b[2]>>)
RMul(a, b) == RNorm(<<a[1] * b[1], a[2] * b[2]>>)
RDiv(a, b) == IF b[1] > 0 THEN RNorm(<<a[1] * b[2], a[2] * b[1]>>) ELSE RNorm(<<-(a[1] * b[2]), a[2] * (-b[1])>>)
REq(a, b) == a[1] * b[2] = b[1] * a[2]
RLe(a, b) == a[1] * b[2] <= b[1] * a[2]
RLt(a, b) == a[1] * b[2] < b[1] * a[2]
RHalf(a) == RNorm(<<a[1], a[2] * 2>>)
=============================================================================
