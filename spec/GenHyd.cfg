SPECIFICATION Spec
CONSTANTS
  MaxNodes = 3
  MaxChords = 1
  Demands <- DemandsSmall
  NVals = {0, 160}
  ZetaVals = {0, 2}
  SecVals = {1, 3}
  HVals = {1, 2}
  ChordFlows <- ChordFlowsSmall
  Kinds <- KindsAll
  EmitOn = FALSE
  MaxSteps = 3
INVARIANT InvBalance
INVARIANT InvOrientationFree
INVARIANT InvShift
CHECK_DEADLOCK FALSE
