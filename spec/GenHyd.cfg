SPECIFICATION Spec
CONSTANTS
  ThermalOn = FALSE
  MaxNodes = 3
  MaxChords = 1
  Demands <- DemandsSmall
  NVals = {0, 160}
  ZetaVals = {0, 2}
  SecVals = {1, 3}
  HVals = {1, 2}
  ChordFlows <- ChordFlowsSmall
  Kinds <- KindsAll
  EmitOn = FALSE
  MaxSteps = 2
  FmVals = {"nikuradse", "colebrook", "swamee-jain"}
  FdVals = {1}
  TeVals = {1}
  DtVals = {0}
INVARIANT InvBalance
INVARIANT InvOrientationFree
INVARIANT InvShift
INVARIANT InvFrictionModel
CHECK_DEADLOCK FALSE
