SPECIFICATION Spec
CONSTANTS
  DefaultKeys <- AllDefaultKeys
POSTCONDITION Post
CHECK_DEADLOCK FALSE
