----------------------------- MODULE Trace_Edit -----------------------------
(***************************************************************************)
(* Trace validation of the editing API (C16 creation, C17 restructuring).   *)
(* Every recorded call is judged against PPEdit's semantics applied to the  *)
(* ACTUAL state before the call (projected from the real tables), so that   *)
(* the rest of a history is still checked after a first disagreement.       *)
(***************************************************************************)
EXTENDS PPEdit, Json, IOUtils, TLC

Cases == ndJsonDeserialize(IOEnv.TRACE_FILE)

VARIABLES ci, ei, pre, bad
vars == <<ci, ei, pre, bad>>

Init == ci = 1 /\ ei = 1 /\ pre = Cases[1].pre /\ bad = {}

PairsToFn(S) == [k \in {p[1] : p \in S} |-> (CHOOSE p \in S : p[1] = k)[2]]

Expected(n, e) ==
    IF e.op = "reindex" THEN Relabel(n, e.tbl, PairsToFn(ToSet(e.lk)))
    ELSE IF e.op = "continuous" THEN Relabel(n, e.tbl, ContLookup(TblLabs(n, e.tbl), e.start))
    ELSE IF e.op = "continuous_all" THEN ContAll(n, e.start)
    ELSE IF e.op = "drop_junctions" THEN DropJunctions(n, ToSet(e.js))
    ELSE IF e.op = "drop_elements_at_junctions" THEN DropElementsAtJ(n, ToSet(e.js))
    ELSE IF e.op = "drop_pipes" THEN DropPipes(n, ToSet(e.ps))
    ELSE IF e.op = "fuse_junctions" THEN Fuse(n, e.j1, ToSet(e.j2))
    ELSE IF e.op = "select_subnet" THEN Select(n, ToSet(e.js))
    ELSE n

IsRelabel(e) == e.op \in {"reindex", "continuous", "continuous_all"}
IsTool(e) == e.op \in {"reindex", "continuous", "continuous_all", "drop_junctions", "drop_elements_at_junctions", "drop_pipes",
                       "fuse_junctions", "select_subnet"}

(* rows that the call was not asked to touch must come out identical *)
TouchedJ(e) == IF e.op \in {"drop_junctions", "drop_elements_at_junctions"} THEN ToSet(e.js)
               ELSE IF e.op = "fuse_junctions" THEN ToSet(e.j2) \cup {e.j1} ELSE {}
TouchedP(e) == IF e.op = "drop_pipes" THEN ToSet(e.ps) ELSE {}
Subset3(u, n) == u.J \subseteq JRows(n) /\ u.E \subseteq ERows(n) /\ u.N \subseteq NRows(n)

ToolClauses(n, e) ==
    LET res == IF e.op = "select_subnet" THEN e.sub ELSE e.post
        ex == Expected(n, e)
    IN IF ~e.post_ok THEN {<<"C17.unreadable_result", e.op>>}
       ELSE IF e.outcome # "ok" THEN {<<"C17.raised", e.op>>}
       ELSE (IF ~RefOK(res) THEN {<<"C17.dangling_reference", e.op>>} ELSE {})
            \cup (IF ~LabelsUnique(res) THEN {<<"C17.duplicate_labels", e.op>>} ELSE {})
            \cup (IF IsRelabel(e) /\ ~SameNet(res, ex) THEN {<<"C17.relabel_mismatch", e.tbl>>} ELSE {})
            \cup (IF ~IsRelabel(e) /\ e.op # "select_subnet" /\ ~Subset3(UntouchedBy(n, TouchedJ(e), TouchedP(e)), res)
                  THEN {<<"C17.touched_unrelated", e.op>>} ELSE {})
            \cup (IF e.op = "select_subnet" /\ ~SameNet(e.post, n) THEN {<<"C17.select_changed_original", e.op>>} ELSE {})
            \cup (IF e.op = "select_subnet" /\ ~Subset3([J |-> JRows(res), E |-> ERows(res), N |-> NRows(res)], n)
                  THEN {<<"C17.select_altered_rows", e.op>>} ELSE {})
            \cup (IF ~IsRelabel(e) /\ ~SameNet(res, ex) THEN {<<"NOTE.differs_from_model", e.op>>} ELSE {})

(* ---- creation ---- *)
Guard(n, e) ==
    IF e.op = "create_junction" THEN GuardJunction(n, e.idx, e.geo)
    ELSE IF e.op = "create_heat_consumer" THEN GuardBranch(n, "heat_consumer", e.idx, e.a, e.b) /\ HCSpecOK(e.spec)
    ELSE IF e.op = "create_bulk" THEN
        /\ (e.tbl = "junction" \/ e.badpos = 0 \/ 9 \in JLabs(n))
        /\ (e.tbl = "junction" \/ (e.a \in JLabs(n) /\ e.b \in JLabs(n)))
        /\ (e.idxmode = "auto" \/ \A k \in 0..(e.n - 1) : FreeLab(n, e.tbl, e.l0 + k))
    ELSE IF e.op = "create_branch" THEN GuardBranch(n, e.tbl, e.idx, e.a, e.b)
    ELSE IF e.op = "create_valve" THEN GuardValve(n, e.idx, e.j, e.el, e.et)
    ELSE GuardNodeEl(n, e.tbl, e.idx, e.j)
TblOf(e) == IF e.op = "create_junction" THEN "junction" ELSE IF e.op = "create_valve" THEN "valve"
            ELSE IF e.op = "create_heat_consumer" THEN "heat_consumer" ELSE e.tbl
NewLab(n, e) == IF e.idx = -1 THEN NextFree(n, TblOf(e)) ELSE e.idx
(* the rows with the new identity *)
NewRows(n2, id) == {r \in JRows(n2) \cup ERows(n2) \cup NRows(n2) : r.id = id}
RowAsRequested(n, e, r) ==
    /\ r.lab = NewLab(n, e)
    /\ IF e.op = "create_junction" THEN r.svc
       ELSE IF e.op = "create_branch" THEN r.tbl = e.tbl /\ r.a = e.a /\ r.b = e.b /\ r.svc
       ELSE IF e.op = "create_heat_consumer" THEN r.tbl = "heat_consumer" /\ r.a = e.a /\ r.b = e.b /\ r.svc
       ELSE IF e.op = "create_valve" THEN r.tbl = "valve" /\ r.a = e.j /\ r.b = e.el /\ r.et = e.et /\ r.svc
       ELSE r.tbl = e.tbl /\ r.j = e.j /\ r.svc
OldRowsSame(n, n2, id) ==
    /\ JRows(n) = {r \in JRows(n2) : r.id # id}
    /\ ERows(n) = {r \in ERows(n2) : r.id # id}
    /\ NRows(n) = {r \in NRows(n2) : r.id # id}

CreateClauses(n, e) ==
    IF ~e.post_ok THEN {<<"C16.unreadable_result", e.op>>}
    ELSE IF ~Guard(n, e) THEN
        (IF e.outcome = "ok" THEN {<<"C16.accepted_invalid", e.op>>} ELSE {})
        \cup (IF e.outcome # "ok" /\ ~SameNet(e.post, n) THEN {<<"C16.refusal_not_atomic", e.op>>} ELSE {})
        \cup (IF e.outcome # "ok" /\ SameNet(e.post, n) /\ ~e.shape_same THEN {<<"C16.refusal_changed_tables", e.shape_diff>>} ELSE {})
        \cup (IF e.outcome = "none" THEN {<<"NOTE.refused_without_exception", e.op>>} ELSE {})
    ELSE IF e.op = "create_bulk" THEN
        IF e.outcome # "ok" THEN {<<"C16.refused_valid", e.op>>}
        ELSE LET ids == {e.serial + k : k \in 0..(e.n - 1)}
                 nr == UNION {NewRows(e.post, i) : i \in ids} IN
             (IF Cardinality(nr) # e.n THEN {<<"C16.bulk_row_count", e.tbl>>}
              ELSE IF \E k \in 0..(e.n - 1) : \A r \in NewRows(e.post, e.serial + k) :
                        ~(r.lab = e.l0 + k /\ r.svc /\ (e.tbl = "junction" \/
                            (IF e.tbl \in NodeElTables THEN r.j = (IF k + 1 = e.badpos THEN 9 ELSE e.a)
                             ELSE r.a = (IF k + 1 = e.badpos THEN 9 ELSE e.a) /\ r.b = e.b)))
                   THEN {<<"C16.bulk_row_not_as_requested", e.tbl>>} ELSE {})
             \cup (IF JRows(n) # {r \in JRows(e.post) : r.id \notin ids} \/ ERows(n) # {r \in ERows(e.post) : r.id \notin ids}
                      \/ NRows(n) # {r \in NRows(e.post) : r.id \notin ids} THEN {<<"C16.touched_others", e.op>>} ELSE {})
             \cup (IF ~LabelsUnique(e.post) THEN {<<"C16.duplicate_labels", e.op>>} ELSE {})
             \cup (IF e.dig_bulk # e.dig_single THEN {<<"C16.bulk_differs_from_single", e.tbl>>} ELSE {})
             \cup (IF e.dig_bulk = e.dig_single /\ e.sdig_bulk # e.sdig_single THEN {<<"NOTE.bulk_dtype_or_column_order", e.tbl>>} ELSE {})
    ELSE
        IF e.outcome # "ok" THEN {<<"C16.refused_valid", e.op>>}
        ELSE LET nr == NewRows(e.post, e.serial) IN
             (IF Cardinality(nr) # 1 THEN {<<"C16.not_exactly_one_row", e.op>>}
              ELSE IF ~RowAsRequested(n, e, CHOOSE r \in nr : TRUE) THEN {<<"C16.row_not_as_requested", e.op>>} ELSE {})
             \cup (IF ~OldRowsSame(n, e.post, e.serial) THEN {<<"C16.touched_others", e.op>>} ELSE {})
             \cup (IF ~LabelsUnique(e.post) THEN {<<"C16.duplicate_labels", e.op>>} ELSE {})
             \cup (IF ~RefOK(e.post) THEN {<<"C16.dangling_reference", e.op>>} ELSE {})

Fail(c, f) == IF f = {} THEN TRUE
              ELSE PrintT(ToJson([vp |-> "FAIL", id |-> c.id, ev |-> ei, clauses |-> SetToSeq(f)]))

Step ==
    /\ ci <= Len(Cases) /\ ei <= Len(Cases[ci].events)
    /\ LET c == Cases[ci]  e == c.events[ei]
           f == IF IsTool(e) THEN ToolClauses(pre, e) ELSE CreateClauses(pre, e)
       IN /\ bad' = f /\ Fail(c, f)
          /\ pre' = e.post
          /\ ei' = ei + 1 /\ ci' = ci
EndCase ==
    /\ ci <= Len(Cases) /\ ei > Len(Cases[ci].events)
    /\ ci' = ci + 1 /\ ei' = 1 /\ bad' = {}
    /\ pre' = IF ci + 1 <= Len(Cases) THEN Cases[ci + 1].pre ELSE pre
Next == Step \/ EndCase
Spec == Init /\ [][Next]_vars

TotalEvents == FoldLeft(LAMBDA acc, c : acc + Len(c.events), 0, Cases)
Post == /\ PrintT(ToJson([vp |-> "SUMMARY", cases |-> Len(Cases), events |-> TotalEvents]))
        /\ TLCGet("stats").diameter = TotalEvents + Len(Cases) + 1
=============================================================================
