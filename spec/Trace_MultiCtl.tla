--------------------------- MODULE Trace_MultiCtl ---------------------------
(***************************************************************************)
(* C20: recorded runs of pandapipes.multinet.run_control on multinets with  *)
(* several coupling controllers / in-net controllers on levels and orders   *)
(* chosen by MC_MultiCtl.  Per run: for every coupling controller the value *)
(* it wrote and the final input of its source element (rationals), for      *)
(* every member net the digest of its stored results and of a stand-alone   *)
(* calculation on a fresh copy carrying the final inputs.                   *)
(***************************************************************************)
EXTENDS PPMultiCtl, PPMulti, Json, IOUtils, TLC, SequencesExt
Cases == ndJsonDeserialize(IOEnv.TRACE_FILE)
VARIABLES ci, bad
vars == <<ci, bad>>
Q(x) == <<x[1], x[2]>>
CtrlSet(c) == {[kind |-> x.kind, level |-> x.level, order |-> x.order] : x \in ToSet(c.ctrls)}
Conv(w) == IF w.kind = "P2G" THEN P2G(Q(w.inp), Q(w.sc), Q(w.eff), Q(w.h))
           ELSE IF w.kind = "G2P" THEN G2PGas(Q(w.inp), Q(w.sc), Q(w.eff), Q(w.h))
           ELSE G2G(Q(w.inp), Q(w.sc), Q(w.eff), Q(w.h), Q(w.h2))
CaseClauses(c) ==
    IF c.raised # "" THEN {<<"C20.raised", c.raised, "">>} ELSE
    LET S == CtrlSet(c) IN
    (* a coupling controller all of whose source's writers come before it converted the final input of its source element *)
    {<<"C20.written_value", w.kind, "">> : w \in {w \in ToSet(c.written) :
        WritersBefore(S, CHOOSE x \in S : x.kind = w.kind) /\ ~REq(Q(w.val), Conv(w))}}
    \cup {<<"C20.member_net_differs_from_standalone", r.net, "">> : r \in {r \in ToSet(c.nets) : r.coupled # r.standalone}}
    \cup (IF c.multinet_converged /\ \E r \in ToSet(c.nets) : ~r.converged THEN {<<"C20.converged_flag", "", "">>} ELSE {})
    \cup (IF ~c.multinet_converged /\ \A r \in ToSet(c.nets) : r.converged THEN {<<"C20.not_converged_flag", "", "">>} ELSE {})
Init == ci = 0 /\ bad = {}
Step == /\ ci < Len(Cases) /\ ci' = ci + 1
        /\ LET c == Cases[ci + 1]  f == CaseClauses(c) IN
           /\ bad' = f
           /\ IF f = {} THEN TRUE ELSE PrintT(ToJson([vp |-> "FAIL", id |-> c.id, clauses |-> SetToSeq(f)]))
Spec == Init /\ [][Step]_vars
Post == /\ PrintT(ToJson([vp |-> "SUMMARY", cases |-> Len(Cases)]))
        /\ TLCGet("stats").diameter - 1 = Len(Cases)
=============================================================================
