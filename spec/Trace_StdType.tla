--------------------------- MODULE Trace_StdType ---------------------------
(***************************************************************************)
(* Recorded histories of standard-type calls on a real net against PPStd.   *)
(* Every event carries the call, its outcome and the projected state after  *)
(* it; it is judged against the semantics applied to the ACTUAL state       *)
(* before it (so the rest of a history is still checked after a failure).   *)
(* lib rows: <<name, d, k, u>>; pipe rows in index order; libdig = digest   *)
(* of all library entries other than the two names under test; par = digest *)
(* of the row the equivalent create_pipe_from_parameters call produces.     *)
(***************************************************************************)
EXTENDS PPStd, Json, IOUtils, TLC, SequencesExt

Cases == ndJsonDeserialize(IOEnv.TRACE_FILE)
VARIABLES ci, ei, bad
vars == <<ci, ei, bad>>

LibFn(rows) == [n \in {r[1] : r \in ToSet(rows)} |-> LET r == CHOOSE r \in ToSet(rows) : r[1] = n IN [d |-> r[2], k |-> r[3], u |-> r[4]]]
PRow(r) == Row(r[1], r[2], r[3], r[4])
Pipes(rows) == [i \in DOMAIN rows |-> PRow(rows[i])]

Clauses(pre, e) ==
    LET lib == LibFn(pre.lib)   pipes == Pipes(pre.pipes)
        lib2 == LibFn(e.post.lib)  pipes2 == Pipes(e.post.pipes)
        okc == e.outcome = "ok"
        unchanged == lib2 = lib /\ pipes2 = pipes /\ e.post.libdig = pre.libdig
    IN
    (IF e.post.libdig # pre.libdig THEN {<<"STD.other_library_entries_changed", e.op>>} ELSE {}) \cup
    (IF e.op = "create_std_type" THEN
        LET dt == [d |-> e.data.d, k |-> e.data.k, u |-> e.data.u]
            adm == TypeAdmissible(lib, e.name, dt, e.overwrite) IN
        (IF adm /\ ~okc THEN {<<"STD.refused_valid", e.op>>} ELSE {})
        \cup (IF ~adm /\ okc THEN {<<"STD.accepted_invalid", e.op>>} ELSE {})
        \cup (IF ~okc /\ ~unchanged THEN {<<"STD.refusal_not_atomic", e.op>>} ELSE {})
        \cup (IF adm /\ okc /\ (lib2 # WithType(lib, e.name, dt) \/ pipes2 # pipes) THEN {<<"STD.library_not_as_requested", e.op>>} ELSE {})
     ELSE IF e.op = "delete_std_type" THEN
        LET adm == e.name \in DOMAIN lib IN
        (IF adm # okc THEN {<<IF adm THEN "STD.refused_valid" ELSE "STD.accepted_invalid", e.op>>} ELSE {})
        \cup (IF ~okc /\ ~unchanged THEN {<<"STD.refusal_not_atomic", e.op>>} ELSE {})
        \cup (IF adm /\ okc /\ (lib2 # WithoutType(lib, e.name) \/ pipes2 # pipes) THEN {<<"STD.library_not_as_requested", e.op>>} ELSE {})
     ELSE IF e.op = "create_pipe" THEN
        LET adm == e.name \in DOMAIN lib IN
        (IF adm # okc THEN {<<IF adm THEN "STD.refused_valid" ELSE "STD.accepted_invalid", e.op>>} ELSE {})
        \cup (IF ~okc /\ ~unchanged THEN {<<"STD.refusal_not_atomic", e.op>>} ELSE {})
        (* the library is not touched by creating a pipe, whatever per-pipe overrides are given *)
        \cup (IF lib2 # lib THEN {<<"STD.library_changed", e.op>>} ELSE {})
        \cup (IF adm /\ okc /\ pipes2 # Append(pipes, FromType(lib, e.name, e.k, e.u)) THEN {<<"STD.row_differs_from_type", e.op>>} ELSE {})
        (* a pipe from a type equals the pipe from the type's parameters (digest of all columns but name / std_type) *)
        \cup (IF adm /\ okc /\ e.k = NoVal /\ e.u = NoVal /\ e.rowdig # e.pardig THEN {<<"STD.type_differs_from_parameters", e.op>>} ELSE {})
     ELSE IF e.op = "create_pipe_from_parameters" THEN
        (IF ~okc THEN {<<"STD.refused_valid", e.op>>} ELSE {})
        \cup (IF lib2 # lib THEN {<<"STD.library_changed", e.op>>} ELSE {})
        \cup (IF okc /\ pipes2 # Append(pipes, Row("", e.d, e.k, e.u)) THEN {<<"STD.row_not_as_requested", e.op>>} ELSE {})
     ELSE IF e.op = "change_std_type" THEN
        LET adm == e.name \in DOMAIN lib /\ e.row \in DOMAIN pipes IN
        (IF adm # okc THEN {<<IF adm THEN "STD.refused_valid" ELSE "STD.accepted_invalid", e.op>>} ELSE {})
        \cup (IF lib2 # lib THEN {<<"STD.library_changed", e.op>>} ELSE {})
        \cup (IF ~okc /\ ~unchanged THEN {<<"STD.refusal_not_atomic", e.op>>} ELSE {})
        \cup (IF adm /\ okc /\ pipes2 # [pipes EXCEPT ![e.row] = Retyped(lib, pipes[e.row], e.name)] THEN {<<"STD.retyped_row_differs", e.op>>} ELSE {})
     ELSE {<<"STD.unknown_event", e.op>>})

Init == ci = 1 /\ ei = 1 /\ bad = {}
PreOf(c, i) == IF i = 1 THEN c.pre ELSE c.events[i - 1].post
Step == /\ ci <= Len(Cases) /\ ei <= Len(Cases[ci].events)
        /\ LET c == Cases[ci]  f == Clauses(PreOf(c, ei), c.events[ei]) IN
           /\ bad' = f
           /\ IF f = {} THEN TRUE ELSE PrintT(ToJson([vp |-> "FAIL", id |-> c.id, ev |-> ei, clauses |-> SetToSeq(f)]))
        /\ ei' = ei + 1 /\ ci' = ci
EndCase == /\ ci <= Len(Cases) /\ ei > Len(Cases[ci].events) /\ ci' = ci + 1 /\ ei' = 1 /\ bad' = {}
Next == Step \/ EndCase
Spec == Init /\ [][Next]_vars
TotalEvents == FoldLeft(LAMBDA acc, c : acc + Len(c.events), 0, Cases)
Post == /\ PrintT(ToJson([vp |-> "SUMMARY", cases |-> Len(Cases), events |-> TotalEvents]))
        /\ TLCGet("stats").diameter = TotalEvents + Len(Cases) + 1
=============================================================================
