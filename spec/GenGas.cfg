SPECIFICATION Spec
CONSTANTS
  MaxNodes = 3
  PVals = {500, 1200, 1300}
  HVals = {1, 2, 3}
  Demands = {0, 1, 2}
  NVals = {0, 160}
  Kinds <- KindsAll
  EmitOn = FALSE
  MaxSteps = 2
INVARIANT InvBalance
INVARIANT InvLaw
CHECK_DEADLOCK FALSE
