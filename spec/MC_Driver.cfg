SPECIFICATION Spec
CONSTANTS
  NVars = 2
  MaxIter = 3
  Methods = {"constant", "automatic"}
  ErrVals <- ErrValsDef
  TolRank = 2
  Decision = "coded"
  EmitOn = FALSE
INVARIANT InvConvergedWithinTol
INVARIANT InvConvergedUndamped
INVARIANT InvBudget
INVARIANT InvNaN
INVARIANT InvAlpha
INVARIANT InvReject
CHECK_DEADLOCK FALSE
