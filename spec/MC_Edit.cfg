SPECIFICATION Spec
CONSTANTS
  MaxOps = 1
  OpKinds = {"reindex", "drop", "fuse", "select", "create", "bulk"}
  BaseIds = {1, 2, 3}
  EmitOn = FALSE
INVARIANT InvRefOK
INVARIANT InvUnique
INVARIANT InvPipeValves
PROPERTY RelabelKeepsIds
CHECK_DEADLOCK FALSE
