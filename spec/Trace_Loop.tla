----------------------------- MODULE Trace_Loop -----------------------------
(***************************************************************************)
(* C11 (and the feeder clauses of C10): observed results of designed loops  *)
(* against the exact reference GenLoop.  Temperatures in 1e-3 K, heat in W, *)
(* mass flow in 1e-6 kg/s; observations <<kind, value>>.                     *)
(***************************************************************************)
EXTENDS PPRefLoop, Json, TLC, IOUtils, SequencesExt

Cases == ndJsonDeserialize(IOEnv.TRACE_FILE)
VARIABLES ci, bad
vars == <<ci, bad>>
AbsI(x) == IF x < 0 THEN -x ELSE x
Milli(q) == (q[1] * 1000) \div q[2]
Whole(q) == q[1] \div q[2]
NearT(o, q) == o[1] = 0 /\ AbsI(o[2] - Milli(q)) <= 3
NearQ(o, q) == o[1] = 0 /\ AbsI(o[2] - Whole(q)) <= 2 + AbsI(Whole(q)) \div 100000      \* 2 W + 1e-5 relative
NearM(o, m) == o[1] = 0 /\ AbsI(o[2] - m * 1000000) <= 5

(* the consistent reading: every consumer meets m, q, dT; QE_TR only in bidirectional mode (as the property says) *)
Judged(c, i) == c.l.cons[i].mode # "QE_TR" \/ c.mode = "bidirectional"

CaseClauses(c) ==
    LET x == c.l IN
    (* the properties speak about returned calculations: a run that does not converge, or that the library refuses because the  *)
    (* iteration ended in a state with reverse flow through the circulation pump (how it fails is C05's business, finding F20), *)
    (* is not judged here                                                                                                      *)
    IF c.outcome \in {"PipeflowNotConverged", "raised:UserWarning:circ_pump_direction"} THEN {}
    ELSE IF c.outcome # "returned" THEN {<<"C11.not_returned", c.outcome, c.mode>>} ELSE
    UNION {
      (* always: the reported heat of every consumer is mass flow x cp x reported temperature drop (1 % + 50 W) *)
      {<<"C11.duty_inconsistent", x.cons[i].mode, c.mode>> : i \in {i \in DOMAIN x.cons :
            c.cons[i].q[1] # 0 \/ c.cons[i].m[1] # 0 \/ c.cons[i].tfrom[1] # 0 \/ c.cons[i].tout[1] # 0 \/
            LET calc == (4 * (c.cons[i].m[2] \div 1000) * (c.cons[i].tfrom[2] - c.cons[i].tout[2])) \div 1000
            IN AbsI(c.cons[i].q[2] - calc) > 50 + AbsI(calc) \div 100}},
      (* exact set-points: only if the whole loop is in the regime where the property promises them *)
      UNION {IF ~(\A k \in DOMAIN x.cons : Judged(c, k)) THEN {} ELSE
             (IF ~NearM(c.cons[i].m, x.cons[i].m) THEN {<<"C11.mass_flow_setpoint", x.cons[i].mode, c.mode>>} ELSE {})
             \cup (IF ~NearQ(c.cons[i].q, Q(x, i)) THEN {<<"C11.heat_setpoint", x.cons[i].mode, c.mode>>} ELSE {})
             \cup (IF ~NearT(c.cons[i].dt, R(x.cons[i].dT)) THEN {<<"C11.deltat", x.cons[i].mode, c.mode>>} ELSE {})
             \cup (IF ~NearT(c.cons[i].tout, TOut(x, i)) THEN {<<"C11.outlet_temperature", x.cons[i].mode, c.mode>>} ELSE {})
             \cup (IF ~NearT(c.cons[i].tfrom, TS(x)) THEN {<<"C11.inlet_temperature", x.cons[i].mode, c.mode>>} ELSE {})
             : i \in DOMAIN x.cons},
      (IF \A i \in DOMAIN x.cons : Judged(c, i) THEN
         (IF ~NearQ(c.pump.q, PumpHeat(x)) THEN {<<"C11.pump_heat", x.pump, c.mode>>} ELSE {})
         \cup (IF ~NearT(c.pump.tret, TRet(x)) THEN {<<"C10.return_temperature", x.pump, c.mode>>} ELSE {})
         \cup (IF ~NearM(c.pump.m, MMain(x)) THEN {<<"C11.pump_mass_flow", x.pump, c.mode>>} ELSE {})
         \cup (IF x.p2 = 1 /\ ~NearQ(c.pump2.q, Pump2Heat(x)) THEN {<<"C11.pump_heat", "second_producer", c.mode>>} ELSE {})
         \cup (IF x.p2 = 1 /\ ~NearT(c.pump2.tout, R(T2FLOW)) THEN {<<"C10.feed_temperature", "second_producer", c.mode>>} ELSE {})
       ELSE {}),
      (IF ~NearT(c.pump.tflow, R(TFLOW)) THEN {<<"C10.feed_temperature", x.pump, c.mode>>} ELSE {}),
      (* (the supply pipe's decay factor is designed for the promised flows: only judged when they are promised) *)
      (IF (\A i \in DOMAIN x.cons : Judged(c, i)) /\ ~NearT(c.ts, TS(x)) THEN {<<"C10.supply_temperature", x.pump, c.mode>>} ELSE {})
    }

Init2 == ci = 0 /\ bad = {}
Step == /\ ci < Len(Cases) /\ ci' = ci + 1
        /\ LET c == Cases[ci + 1]  f == CaseClauses(c) IN
           /\ bad' = f
           /\ IF f = {} THEN TRUE ELSE PrintT(ToJson([vp |-> "FAIL", id |-> c.id, clauses |-> SetToSeq(f)]))
TSpec == Init2 /\ [][Step]_vars
Post == /\ PrintT(ToJson([vp |-> "SUMMARY", cases |-> Len(Cases)]))
        /\ TLCGet("stats").diameter - 1 = Len(Cases)
=============================================================================
