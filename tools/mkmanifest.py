#!/usr/bin/env python3
"""Generate MANIFEST.json from the registry below (single source of truth for the interface)."""
import json, os
ROOT = os.path.dirname(os.path.dirname(os.path.abspath(__file__)))
props = [json.loads(l)["id"] for l in open(os.path.join(ROOT, "properties.jsonl"))]

CHECKS = {
 "C04": dict(
    level="model_checking",
    text="TLC model-checks the connectivity semantics (least fixpoint, monotonicity under flag toggles) exhaustively on small nets; "
         "nets emitted by TLC (exhaustive small space + seeded simulation of a larger one) are run through the real solver and the "
         "recorded result pattern, failure behaviour and pruned-net relation are decided by the TLA+ trace specification Trace_PF.",
    design_ref="DESIGN.md 5 C04",
    note="Trusted: harness/netio.project (NaN/number classification, 1e-9 ticks); builder uses public create_* only. "
         "Bounded: exhaustive <=3 junctions/<=2 branches in the model, sampled nets up to 4 junctions/4 branches/2 pipe-valves for replay. "
         "Thermal pattern: nets with p / t / pt feeders in sequential mode (branch temperatures iff thermally calculated, junctions outside the thermally supplied part at ambient). "
         "Thorough additionally judges every pipeflow call of the repository's own test-suite (recorded by a pytest plugin; nets up to 60 junctions).",
    technique="TLA+ spec (PPConn/GenConn) model-checked with TLC + TLC-generated nets replayed into pandapipes + trace validation (Trace_PF)"),
 "C14": dict(
    level="model_checking",
    text="The three option layers are a TLA+ state machine (set_user_pf_options reset/update, call); TLC checks precedence, "
         "iter expansion, couplings, domain and call-purity exhaustively for every key group, and every distinct reachable "
         "<user layer, options in force> state plus seeded multi-call histories are replayed into init_options and validated "
         "event by event by the trace specification Trace_Options (resolved options, stored user options, defaults digest).",
    design_ref="DESIGN.md 5 C14",
    note="Trusted: value-id <-> concrete value maps in harness/c14.py; documented defaults pinned to the baseline default_options "
         "(the init_options docstring disagrees with them, see DESIGN F17). Quick replays a seeded 8000-sample of the exhaustive "
         "2-op histories, thorough all of them. Missing numba simulated via pipeflow_setup.numba_installed.",
    technique="TLA+ spec (PPOptions/MC_Options) model-checked with TLC + TLC-generated call histories replayed into init_options + trace validation (Trace_Options)"),
 "C05": dict(
    level="model_checking",
    text="(1) The Newton driver (iteration budget, tolerance test, damping ladder, step rejection) is transcribed into TLA+ "
         "(PPSolver/MC_Driver) and TLC checks the C05 driver clauses over all bounded observation sequences; (2) every behaviour of "
         "that model is replayed into the real newton_raphson with a scripted solve function; (3) all MC_Hist call histories "
         "(<=3 ops: four modes x budgets x damping x tolerance sets, break/repair) are run on real nets; hook events, outcome, "
         "converged flag and result tables of every call are validated by the trace specification Trace_Solver.",
    design_ref="DESIGN.md 5 C05",
    note="Trusted: the guarded hook in pipeflow.newton_raphson; projection of float errors to order-preserving ordinals relative to the "
         "documented tolerance option of each quantity. Bounds: driver model 2 variables, <=3 (quick) / 4 (thorough) iterations, error "
         "ordinals {NaN, below, above(2)}; histories <=3 ops exhaustive (quick: seeded sample of 700 per net), thorough + simulated 5-op histories. "
         "mode='heat' without stored hydraulics is treated as a usage error (any exception class) whose failure postconditions are still checked.",
    technique="TLA+ driver/history models (PPSolver, MC_Driver, MC_Hist) model-checked with TLC + replay into newton_raphson/pipeflow + trace validation (Trace_Solver)"),
 "C12": dict(
    level="model_checking",
    text="Call histories on one net object are behaviours of the TLA+ machine MC_Hist (four modes, budgets, matrix-update/reuse options "
         "with an explicit legitimacy rule for reuse, parameter / structural edits and their undo, stored user options, failing runs). "
         "TLC emits all 3-op histories and simulated 5-op ones; each is replayed on real nets and every run is compared with the same "
         "call on a fresh net object. The trace specification Trace_Hist states purity (no description digest changes across a run), "
         "functional dependency of results on <description, options> (bit-identical digests) and heat-from-stored-hydraulics = sequential.",
    design_ref="DESIGN.md 5 C12",
    note="Trusted: harness/hist.py digests (bit-exact hashes of all element tables incl. dtypes/index/column order, fluid property values on a "
         "probe grid, std types, user options minus hyd_flag, name/sector/component list). Three nets (heating loop, branched water net); "
         "quick samples the exhaustive 3-op histories (640) and adds 180 simulated 5-op histories per seed.",
    technique="TLA+ history machine (MC_Hist) + TLC-generated call histories replayed into pandapipes + digest trace validation (Trace_Hist)"),
 "C16": dict(
    level="model_checking",
    text="create_* calls are actions of the TLA+ editing machine MC_Edit with explicit guards (references exist, index free, pipe attached for "
         "junction-pipe valves, heat-consumer specification, geodata shape) and effects; TLC checks that every action keeps the abstract net "
         "referentially intact and emits every argument combination (valid and invalid, single and bulk with scalar / per-row / partially-null "
         "parameters) on three base nets; each is replayed into the real create functions and Trace_Edit decides: refused <=> guard false, "
         "refusal atomic, exactly the requested rows with unique labels, other rows untouched, bulk = one-by-one (value digest).",
    design_ref="DESIGN.md 5 C16",
    note="Trusted: row identity via the name column, `rest` digests of the remaining columns (None/NaN unified). Covered functions: junction(s), "
         "pipe(s)_from_parameters, valve(s), sink(s), ext_grid, flow_control(s), heat_exchanger(s), heat_consumer; argument positions: index, every "
         "junction/pipe reference, et, geodata, heat-consumer spec. Documented defaults (PPDefaults.tla, transcribed from the baseline signatures) are "
         "compared for all 15 single create functions (46 cells). Not covered yet: std-type vs parameter creation; invalid-argument enumeration for "
         "pump, compressor, circulation pumps, pressure control, mass storage, source.",
    technique="TLA+ editing machine (PPEdit/MC_Edit) model-checked with TLC + TLC-generated calls replayed into create_* + trace validation (Trace_Edit)"),
 "C17": dict(
    level="model_checking",
    text="reindex_*, create_continuous_*_index, drop_junctions, drop_elements_at_junctions, drop_pipes, fuse_junctions and select_subnet are "
         "functions on abstract nets in PPEdit with a typed reference map (a valve's element is a junction or a pipe); TLC checks RefOK / unique "
         "labels / identity preservation for every operation and argument on three base nets (pipe labels colliding with junction labels, "
         "junction-pipe valves, remote pressure controller, circulation pump), and every operation is replayed into the real toolbox: Trace_Edit "
         "demands exact agreement for relabelling (incl. stored results following), no dangling reference and untouched unrelated rows otherwise.",
    design_ref="DESIGN.md 5 C17",
    note="Trusted: projection harness/edit.project (identity in name column, rest/rtag digests). Exhaustive over all single operations of the model "
         "(about 750 incl. all lookups with <=2 keys into 6 targets), plus seeded 3-op histories mixing creation and tools; plus select_subnet of the "
         "supplied region of ~900 TLC-generated nets followed by a pipeflow that must reproduce the region's results (Trace_PF.C17_Subnet).",
    technique="TLA+ editing machine (PPEdit/MC_Edit) model-checked with TLC + TLC-generated tool calls replayed into pandapipes.toolbox + trace validation (Trace_Edit)"),
 "C01": dict(level="model_checking", text="(a) Every designed scenario's reported flows equal the designed integers and balance at every junction (Trace_Ref); (b) TLC-generated nets of all component kinds (water / lgas) are solved and Trace_PF sums the REPORTED flows at every supplied junction and over the net in 1e-9 kg/s ticks (slack per term, not per network size).", design_ref="DESIGN.md 5 C01", note='Trusted: designed constants (harness/designed.py: D*, eta, k), the harness-computed barometric table (documented formula, 1e-6 bar), tick projection. The exact clauses cover the designed liquid family only (constant-property fluid, nikuradse friction, pipes / valves / heat exchangers, trees + chords, up to 6 junctions sampled, <=3 junctions exhaustive in the model); gases, colebrook / swamee-jain and library fluids are not yet covered by the exact reference (limits in DESIGN.md section 6).', technique='TLA+ exact reference model (PPRefHyd/GenHyd) model-checked with TLC + TLC-generated scenarios replayed into pandapipes + trace validation (Trace_Ref/Trace_PF)'),
 "C02": dict(level="model_checking", text="Scenarios of the exact reference model PPRefHyd (integer arithmetic for the documented liquid law: hydrostatic + Darcy-Weisbach with lambda = 64/Re + 1/16 + lumped loss) are generated by TLC, solved by pandapipes and every reported end pressure, mass flow, velocity, Reynolds number, friction factor and volume flow is compared with TLC's own prediction within 2e-6.", design_ref="DESIGN.md 5 C02", note='Trusted: designed constants (harness/designed.py: D*, eta, k), the harness-computed barometric table (documented formula, 1e-6 bar), tick projection. The exact clauses cover the designed liquid family only (constant-property fluid, nikuradse friction, pipes / valves / heat exchangers, trees + chords, up to 6 junctions sampled, <=3 junctions exhaustive in the model); gases, colebrook / swamee-jain and library fluids are not yet covered by the exact reference (limits in DESIGN.md section 6).', technique='TLA+ exact reference model (PPRefHyd/GenHyd) model-checked with TLC + TLC-generated scenarios replayed into pandapipes + trace validation (Trace_Ref/Trace_PF)'),
 "C03": dict(level="model_checking", text="Designed scenarios: feeder junction at the mean of its ext_grid pressures, every scaled sink/source reports mdot*scaling, feed-in equals net consumption. TLC-generated nets (incl. controller-dense ones): active flow controller / mass circulation pump carry their set flow, pressure pump lifts by plift, a well-posed active pressure controller's controlled junction has the controlled pressure, fixed junctions have the mean of their feeders (Trace_PF, 3e-7).", design_ref="DESIGN.md 5 C03", note='Trusted: designed constants (harness/designed.py: D*, eta, k), the harness-computed barometric table (documented formula, 1e-6 bar), tick projection. The exact clauses cover the designed liquid family only (constant-property fluid, nikuradse friction, pipes / valves / heat exchangers, trees + chords, up to 6 junctions sampled, <=3 junctions exhaustive in the model); gases, colebrook / swamee-jain and library fluids are not yet covered by the exact reference (limits in DESIGN.md section 6).', technique='TLA+ exact reference model (PPRefHyd/GenHyd) model-checked with TLC + TLC-generated scenarios replayed into pandapipes + trace validation (Trace_Ref/Trace_PF)'),
 "C06": dict(level="model_checking", text='Every designed scenario is rebuilt with gapped / threshold-crossing (49..51, 99999..100001) / huge junction labels, unsorted branch and load labels and shuffled table rows; the exact prediction (label-free) must hold for every corresponding element.', design_ref="DESIGN.md 5 C06", note='Trusted: designed constants (harness/designed.py: D*, eta, k), the harness-computed barometric table (documented formula, 1e-6 bar), tick projection. The exact clauses cover the designed liquid family only (constant-property fluid, nikuradse friction, pipes / valves / heat exchangers, trees + chords, up to 6 junctions sampled, <=3 junctions exhaustive in the model); gases, colebrook / swamee-jain and library fluids are not yet covered by the exact reference (limits in DESIGN.md section 6).', technique='TLA+ exact reference model (PPRefHyd/GenHyd) model-checked with TLC + TLC-generated scenarios replayed into pandapipes + trace validation (Trace_Ref/Trace_PF)'),
 "C07": dict(level="model_checking", text='Designed scenarios solved with use_numba, only_update_hydraulic_matrix and reuse_internal_data must equal the exact prediction; MC_Hist call histories over {plain, update, reuse} with load edits, structural edits and legitimate reuse are compared bit-exactly with fresh-net runs.', design_ref="DESIGN.md 5 C07", note='Trusted: designed constants (harness/designed.py: D*, eta, k), the harness-computed barometric table (documented formula, 1e-6 bar), tick projection. The exact clauses cover the designed liquid family only (constant-property fluid, nikuradse friction, pipes / valves / heat exchangers, trees + chords, up to 6 junctions sampled, <=3 junctions exhaustive in the model); gases, colebrook / swamee-jain and library fluids are not yet covered by the exact reference (limits in DESIGN.md section 6).', technique='TLA+ exact reference model (PPRefHyd/GenHyd) model-checked with TLC + TLC-generated scenarios replayed into pandapipes + trace validation (Trace_Ref/Trace_PF)'),
 "C08": dict(level="model_checking", text='Every designed scenario is started from pn_bar 0.6 / 30 / 9 / 2 bar and with automatic damping; every converged run must equal the exact prediction (hence any two agree).', design_ref="DESIGN.md 5 C08", note='Trusted: designed constants (harness/designed.py: D*, eta, k), the harness-computed barometric table (documented formula, 1e-6 bar), tick projection. The exact clauses cover the designed liquid family only (constant-property fluid, nikuradse friction, pipes / valves / heat exchangers, trees + chords, up to 6 junctions sampled, <=3 junctions exhaustive in the model); gases, colebrook / swamee-jain and library fluids are not yet covered by the exact reference (limits in DESIGN.md section 6).', technique='TLA+ exact reference model (PPRefHyd/GenHyd) model-checked with TLC + TLC-generated scenarios replayed into pandapipes + trace validation (Trace_Ref/Trace_PF)'),
 "C09": dict(level="model_checking", text='Rewrites as generator dimensions (orientation of every branch, section counts; TLC checks the prediction is invariant) and as builder variants (sectioned pipe -> series pipes, demand split over scaled sinks, source as negative sink, switched-off extra elements); the same exact prediction must hold; the liquid pressure-shift law is a TLC-checked invariant of the model and is exercised by the two-feeder scenarios.', design_ref="DESIGN.md 5 C09", note='Trusted: designed constants (harness/designed.py: D*, eta, k), the harness-computed barometric table (documented formula, 1e-6 bar), tick projection. The exact clauses cover the designed liquid family only (constant-property fluid, nikuradse friction, pipes / valves / heat exchangers, trees + chords, up to 6 junctions sampled, <=3 junctions exhaustive in the model); gases, colebrook / swamee-jain and library fluids are not yet covered by the exact reference (limits in DESIGN.md section 6).', technique='TLA+ exact reference model (PPRefHyd/GenHyd) model-checked with TLC + TLC-generated scenarios replayed into pandapipes + trace validation (Trace_Ref/Trace_PF)'),
 "C18": dict(
    level="model_checking",
    text="Nets emitted by TLC from the connectivity model (exhaustive small space + seeded simulation, consistent junction flags) are given to "
         "create_nxgraph (multigraph and simple graph), unsupplied_junctions and the distance functions, and solved by pipeflow; Trace_Graph states "
         "the documented meaning: one keyed edge per in-service junction-junction element, none for a valve attached to a pipe, a pipe cut when all "
         "valves at one end are closed, components, unsupplied = no pressure-fixing feeder in the component, graph = solver pattern = PPConn on the "
         "common scope, single- and multi-source distances = shortest-path sums of pipe lengths (Bellman-Ford in TLA+).",
    design_ref="DESIGN.md 5 C18",
    note="Defaults plus one seeded random include_* / respect_status_* / respect_status_junctions combination per net. Graph-vs-solver clause restricted to component mixes "
         "without active flow controllers, heat consumers and pressure controllers, where graph connectivity and hydraulic coupling are not meant to "
         "coincide. Nets up to 4 junctions / 4 branches / 2 pipe-valves.",
    technique="TLA+ connectivity/graph semantics (PPConn, Trace_Graph) + TLC-generated nets replayed into pandapipes.topology and pipeflow + trace validation"),
 "C15": dict(
    level="model_checking",
    text="Save/load steps (to_json string / file / encrypted, to_pickle) are actions of the call-history machine MC_Hist; TLC emits all 2-op and "
         "simulated 4-op histories mixing save/load with runs and edits; they are replayed on a zoo of real nets (every component kind, odd labels, "
         "None/NaN cells, custom columns, custom fluid with all property classes, pump type from parameters, restricted sectors, empty net, a net "
         "holding a controller). Trace_Hist demands every digest unchanged across each save/load step (tables incl. results with dtypes/index, fluid "
         "classes and attributes, std types, options, name/sector/component list, converged flag) and equal results to the never-saved twin.",
    design_ref="DESIGN.md 5 C15",
    note="Fidelity is digest equality on the explored nets (structure digests + a float-difference class per table); two limits of pandapower's JSON "
         "encoder are recorded as known findings (15 decimal places, inf -> NaN). Multi-energy nets are left to C20.",
    technique="TLA+ history machine (MC_Hist) + TLC-generated histories with save/load steps replayed into pandapipes.io + digest trace validation (Trace_Hist)"),
 "C19": dict(
    level="model_checking",
    text="Property classes (constant, linear, tabulated with interpolation/extrapolation), their integrals, the pump lift polynomial and the mixture "
         "rules are exact rational functions in PPLib; TLC checks the laws on the reference (antisymmetry, additivity, table reproduced, lift >= 0, "
         "fractions sum to one, molar/mass inverse) and enumerates the case analysis (class x operation x argument shape x argument position x table "
         "order); every case is evaluated by the real classes and compared exactly by Trace_Lib. Library files of all fluids (values at, between and "
         "beyond the tabulated points, array shape, compressibility slope = stored derivative) and all library pipe types through create_pipe "
         "(incl. per-pipe overrides not leaking into the library) are checked against oracle tables parsed from the data files.",
    design_ref="DESIGN.md 5 C19",
    note="'model checking' here means enumerating the finite case analysis of self-contained functions with TLC and validating each case against the "
         "implementation. Polynomial / Sutherland properties and the viscosity mixing rule (square roots) are outside the rational reference.",
    technique="TLA+ rational reference (Rat/PPLib/GenLib) model-checked with TLC + every generated case evaluated by the real classes + trace validation (Trace_Lib)"),
 "C10": dict(
    level="model_checking",
    text="PPRefTherm is an exact rational reference for temperatures on the designed family (decay factors 1, 1/2, 3/4 with the heat-transfer "
         "coefficient derived from the documented exponential law, two ambient temperatures, heat exchangers, mass-flow weighted mixing at chords, "
         "feed temperature fixed at the feeder). TLC checks the reference (isothermal law, balance) and emits scenarios incl. branches declared "
         "against the flow and 1-3 sections; pandapipes solves them in modes sequential, bidirectional and heat (stored hydraulics) with different "
         "labels / row orders / start temperatures / series-split pipes; Trace_Therm compares every junction temperature, t_from / t_to / t_outlet "
         "and the min/max bound with TLC's prediction (2e-3 K). Designed loops (GenLoop) add circulation-pump feed and return temperatures.",
    design_ref="DESIGN.md 5 C10",
    note="Constant heat capacity only: the mean-cp weighting of the mixing rule with temperature-dependent cp (DESIGN F4) is outside the exact reference. "
         "Trees + chords up to 5 junctions; thermal connectivity patterns (thermally unsupplied islands) are not enumerated yet.",
    technique="TLA+ exact thermal reference (PPRefTherm/GenHyd, PPRefLoop/GenLoop) model-checked with TLC + TLC-generated scenarios replayed into pandapipes + trace validation (Trace_Therm/Trace_Loop)"),
 "C11": dict(
    level="model_checking",
    text="GenLoop enumerates designed district-heating loops (circulation pump of either kind, supply / return pipes with decay, one or two "
         "consumers in the five heat-consumer modes or heat exchangers); TLC checks the reference's energy closure (pump heat = consumer duties + "
         "pipe losses) and every loop is solved in bidirectional and sequential mode (other start temperatures, labels, sections). Trace_Loop "
         "demands for every consumer qext = m cp (t_from - t_outlet), the prescribed pair of quantities met whenever the mass flow is prescribed "
         "or the mode is bidirectional, and the pump's reported heat, mass flow and return temperature equal to the exact prediction.",
    design_ref="DESIGN.md 5 C11",
    note="Constant heat capacity (the 'up to the heat-capacity discretisation' term is zero); positive heat flows only in the enumerated loops "
         "(negative duties appear in C10's exchanger scenarios); non-converged runs are not judged.",
    technique="TLA+ exact loop reference (PPRefLoop/GenLoop) model-checked with TLC + every loop replayed into pandapipes + trace validation (Trace_Loop)"),
 "C13": dict(
    level="model_checking",
    text="The time-series loop is the TLA+ machine MC_TS (profile over {feasible A, feasible B, infeasible} of length <= 4, continue_on_divergence "
         "on/off, Solve uninterpreted); TLC checks that every logged step depends on that step's inputs only and that the loop aborts exactly at "
         "the first infeasible step when divergence is not tolerated, and emits all profiles; each is run as a real pandapipes time series "
         "(ConstControl profiles on sinks and on the ext_grid's in_service) and Trace_TS compares every logged step with a stand-alone pipeflow on "
         "a fresh net carrying that step's values, the failure flag of diverged steps and the abort behaviour.",
    design_ref="DESIGN.md 5 C13",
    note="Logged variables: junction p / t, pipe mdot / t_to, sink and ext_grid mdot (digests rounded to 1e-10). Two nets (water with pump and loop, "
         "gas), modes hydraulics and sequential. Subsets / reorderings of the time steps and an additional in-net controller are not enumerated yet.",
    technique="TLA+ loop model (MC_TS) model-checked with TLC + all profiles replayed into run_timeseries + trace validation (Trace_TS)"),
 "C20": dict(
    level="model_checking",
    text="Conversion laws of the P2G / G2P (gas- and power-led) / G2G controllers are exact rationals in PPMulti; TLC checks round trip = product of "
         "efficiencies and power-led = inverse of gas-led on the model and enumerates configurations (kind x input x scaling x efficiency x scalar / "
         "vectorised indices x level, incl. an input arriving through a level-0 controller). Each is run with run_control on a real multinet "
         "(pandapower net + designed gases); Trace_Multi compares the written values exactly, every member net's results with a stand-alone "
         "pipeflow / runpp carrying the written values, untouched rows, and the converged flags.",
    design_ref="DESIGN.md 5 C20",
    note="One coupling controller per multinet (plus an optional level-0 setter); several coupled controllers with permuted orders and coupled time "
         "series are not enumerated yet. Heating values 10 / 20 kWh/kg by design.",
    technique="TLA+ coupling model (PPMulti/GenMulti) model-checked with TLC + configurations replayed into run_control on multinets + trace validation (Trace_Multi)"),
}

# ---- additions of session 3 (appended to the registry above) ----
def _add(pid, text=None, note=None, tech=None, note_replace=None):
    c = CHECKS[pid]
    if text:
        c["text"] = c["text"] + " " + text
    if note_replace:
        c["note"] = c["note"].replace(*note_replace)
    if note:
        c["note"] = c["note"] + " " + note
    if tech:
        c["technique"] = c["technique"] + "; " + tech


FAMILY_OLD = ("nikuradse friction, pipes / valves / heat exchangers, trees + chords, up to 6 junctions sampled, <=3 junctions exhaustive in the model); gases, colebrook / swamee-jain and library fluids are not yet covered by the exact reference (limits in DESIGN.md section 6).")
FAMILY_NEW = ("the three friction models nikuradse / colebrook / swamee-jain with the roughness of each pipe designed for its flow, pipes / valves / heat exchangers / pumps, trees + chords, up to 6 junctions sampled, <=3 junctions exhaustive in the model) and a designed gas family (K = 1); library fluids are covered relationally only (limits in DESIGN.md section 6).")
for _p in ("C01", "C02", "C03", "C06", "C07", "C08", "C09"):
    _add(_p, note_replace=(FAMILY_OLD, FAMILY_NEW))
_add("C01", text="(c) every time step of transient time series (run_timeseries(transient=True), net projected when the output writer is called) goes through the same balance clauses.")
_add("C03", text="Compressors between junctions of equal (non-zero) height produce their absolute pressure ratio (ambient pressures from the barometric oracle); feeder-dense nets (up to four external grids in every table order).")
_add("C05", text="Stage limits: the iteration limit a stage ran with is the resolved option of that stage (stage-specific starvation in the history alphabet); a residual vector holding NaN is never within tolerance (hook field); nets whose thermal problem has no solution must fail in every thermal mode.")
_add("C07", text="Every run with a matrix option is also compared (outcome class, result difference class) with the same call without the option on a fresh net; nets include one with an open valve and a flow controller.")
_add("C10", text="Temperature-dependent heat capacity: PPRefMix states mixing and exchanger duties as enthalpy balances in two-limb integer arithmetic for a designed linear-cp liquid; 22k scenarios in the model, a seeded sample solved in sequential / bidirectional mode (Trace_Mix). Thick-walled pipes (outer diameter) mixed with pipes without an outer diameter in the designed family.",
     note_replace=("Constant heat capacity only: the mean-cp weighting of the mixing rule with temperature-dependent cp (DESIGN F4) is outside the exact reference. ", "The cooling law of pipes is checked with constant heat capacity only (no closed form otherwise); mixing and duties also with a linear heat capacity. "),
     tech="enthalpy-balance reference PPRefMix/GenMix + Trace_Mix")
_add("C11", text="Heat-exchanger duties with a linear heat capacity (PPRefMix / Trace_Mix: m (h(T_in) - h(T_out)) = q); loops with a circulation pump of type p.", tech="PPRefMix/Trace_Mix")
_add("C12", text="A structural edit that gives a row another index label (results must follow the labels).")
_add("C13", text="Transient series (transient=True) are a dimension of MC_TS: the hydraulic part of every step equals the stand-alone calculation, a step depends on the past only (the series over the profile without its last step reproduces the first steps: InvPrefix), equal inputs give equal hydraulic results.",
     note_replace=("Subsets / reorderings of the time steps and an additional in-net controller are not enumerated yet.", "Transient series on two heat nets with the constant-property liquid. Subsets / reorderings of the time steps are not enumerated yet."))
_add("C16", text="The standard-type library is the state machine MC_StdType (create / delete type, create_pipe with per-pipe overrides, create_pipe_from_parameters, change_std_type); all 2-call and simulated 4-call histories are replayed (Trace_StdType): refusals atomic, row = type parameters, creation from a type = creation from its parameters.",
     note_replace=("Not covered yet: std-type vs parameter creation; invalid-argument", "Invalid-argument"), tech="MC_StdType/Trace_StdType")
_add("C17", text="create_continuous_elements_index: the order in which the set of table names is walked is the nondeterminism of MC_ContAll (all orders, exhaustive); the same calls are replayed in interpreters started with PYTHONHASHSEED 0..7 (thorough 0..39).", tech="MC_ContAll + hash-seed schedules")
_add("C19", text="The standard-type library state machine (MC_StdType / Trace_StdType): the library changes by library calls only, parameters reach created / re-typed pipes unchanged.", tech="MC_StdType/Trace_StdType")
_add("C20", text="The control loop itself is the TLA+ machine MC_MultiCtl (transcribed from run_control / pandapower's control_implementation: levels, orders, control steps, relevant nets, calculations; invariants: every member net ends with the results of its final inputs, every controller wrote once, a coupling whose source's writers precede it converted the final input); all configurations of up to three controllers (three couplings, two in-net setters) x two levels x three orders over three member nets are run through run_control (Trace_MultiCtl).",
     note_replace=("One coupling controller per multinet (plus an optional level-0 setter); several coupled controllers with permuted orders and coupled time series are not enumerated yet.", "Coupled time series are not enumerated."),
     tech="control-loop machine PPMultiCtl/MC_MultiCtl + Trace_MultiCtl")

NA_REASON = "check not built yet in this round (work in progress; see DESIGN.md section 5 for the planned decision procedure)"

man = {
 "version": 1,
 "setup_cmd": "true",
 "hooks": {"guard": "PANDAPIPES_VERIF",
           "enable": "PANDAPIPES_VERIF=1 in the environment of the checking process (set by ./check); /venv imports /repo/src directly, nothing is built",
           "baseline_off_cmd": "cd /repo && env -u PANDAPIPES_VERIF /venv/bin/python -m pytest -ra -q -p no:cacheprovider --timeout=900 --continue-on-collection-errors",
           "source_commits": ["8629ce7", "bfb9390", "911b6a0"], "add_only": True},
 "engines": [{"name": "tlc", "path": "/usr/local/bin/tlc", "serves_properties": sorted(CHECKS),
              "kind_free_text": "TLC 1.8 explicit-state model checker over /verif/spec/*.tla; python harness in /verif/harness"}],
 "checks": [], "not_applicable": [],
 "notes": "All checks: ./check <id> --tier quick|thorough ; replay: ./check <id> --replay <file>. Exit 2 = machinery failure (never a violation)."}
for pid in props:
    if pid in CHECKS:
        c = CHECKS[pid]
        man["checks"].append({
            "property_id": pid,
            "quick_cmd": "./check %s --tier quick" % pid,
            "thorough_cmd": "./check %s --tier thorough" % pid,
            "evidence_file": "/verif/evidence/%s.json" % pid,
            "replay_cmd_template": "./check %s --replay {path}" % pid,
            "engine": "tlc",
            "level_claimed": {"category": c["level"], "text": c["text"], "design_ref": c["design_ref"]},
            "level_note": c["note"], "technique": c["technique"]})
    else:
        man["not_applicable"].append({"property_id": pid, "reason": NA_REASON})
json.dump(man, open(os.path.join(ROOT, "MANIFEST.json"), "w"), indent=1)
print("checks:", [c["property_id"] for c in man["checks"]])
