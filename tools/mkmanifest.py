#!/usr/bin/env python3
"""Generate MANIFEST.json from the registry below (single source of truth for the interface)."""
import json, os
ROOT = os.path.dirname(os.path.dirname(os.path.abspath(__file__)))
props = [json.loads(l)["id"] for l in open(os.path.join(ROOT, "properties.jsonl"))]

CHECKS = {
 "C04": dict(
    level="model_checking",
    text="TLC model-checks the connectivity semantics (least fixpoint, monotonicity under flag toggles) exhaustively on small nets; "
         "nets emitted by TLC (exhaustive small space + seeded simulation of a larger one) are run through the real solver and the "
         "recorded result pattern, failure behaviour and pruned-net relation are decided by the TLA+ trace specification Trace_PF.",
    design_ref="DESIGN.md 5 C04",
    note="Trusted: harness/netio.project (NaN/number classification, 1e-9 ticks); builder uses public create_* only. "
         "Bounded: exhaustive <=3 junctions/<=2 branches in the model, sampled nets up to 4 junctions/4 branches/2 pipe-valves for replay. "
         "Hydraulic connectivity only (thermal pattern under C10).",
    technique="TLA+ spec (PPConn/GenConn) model-checked with TLC + TLC-generated nets replayed into pandapipes + trace validation (Trace_PF)"),
 "C14": dict(
    level="model_checking",
    text="The three option layers are a TLA+ state machine (set_user_pf_options reset/update, call); TLC checks precedence, "
         "iter expansion, couplings, domain and call-purity exhaustively for every key group, and every distinct reachable "
         "<user layer, options in force> state plus seeded multi-call histories are replayed into init_options and validated "
         "event by event by the trace specification Trace_Options (resolved options, stored user options, defaults digest).",
    design_ref="DESIGN.md 5 C14",
    note="Trusted: value-id <-> concrete value maps in harness/c14.py; documented defaults pinned to the baseline default_options "
         "(the init_options docstring disagrees with them, see DESIGN F17). Quick replays a seeded 8000-sample of the exhaustive "
         "2-op histories, thorough all of them. Missing numba simulated via pipeflow_setup.numba_installed.",
    technique="TLA+ spec (PPOptions/MC_Options) model-checked with TLC + TLC-generated call histories replayed into init_options + trace validation (Trace_Options)"),
}
NA_REASON = "check not built yet in this round (work in progress; see DESIGN.md section 5 for the planned decision procedure)"

man = {
 "version": 1,
 "setup_cmd": "true",
 "hooks": {"guard": "PANDAPIPES_VERIF",
           "enable": "PANDAPIPES_VERIF=1 in the environment of the checking process (set by ./check); /venv imports /repo/src directly, nothing is built",
           "baseline_off_cmd": "cd /repo && env -u PANDAPIPES_VERIF /venv/bin/python -m pytest -ra -q -p no:cacheprovider --timeout=900 --continue-on-collection-errors",
           "source_commits": [], "add_only": True},
 "engines": [{"name": "tlc", "path": "/usr/local/bin/tlc", "serves_properties": sorted(CHECKS),
              "kind_free_text": "TLC 1.8 explicit-state model checker over /verif/spec/*.tla; python harness in /verif/harness"}],
 "checks": [], "not_applicable": [],
 "notes": "All checks: ./check <id> --tier quick|thorough ; replay: ./check <id> --replay <file>. Exit 2 = machinery failure (never a violation)."}
for pid in props:
    if pid in CHECKS:
        c = CHECKS[pid]
        man["checks"].append({
            "property_id": pid,
            "quick_cmd": "./check %s --tier quick" % pid,
            "thorough_cmd": "./check %s --tier thorough" % pid,
            "evidence_file": "/verif/evidence/%s.json" % pid,
            "replay_cmd_template": "./check %s --replay {path}" % pid,
            "engine": "tlc",
            "level_claimed": {"category": c["level"], "text": c["text"], "design_ref": c["design_ref"]},
            "level_note": c["note"], "technique": c["technique"]})
    else:
        man["not_applicable"].append({"property_id": pid, "reason": NA_REASON})
json.dump(man, open(os.path.join(ROOT, "MANIFEST.json"), "w"), indent=1)
print("checks:", [c["property_id"] for c in man["checks"]])
