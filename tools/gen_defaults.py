#!/usr/bin/env python3
"""Transcribe the documented defaults of the create functions from the BASELINE commit (signature defaults of
src/pandapipes/create.py at b307031) into spec/PPDefaults.tla.  Run once at authoring time; the result is committed."""
import ast, subprocess, math
src = subprocess.run(["git", "-C", "/repo", "show", "b307031:src/pandapipes/create.py"], stdout=subprocess.PIPE, text=True).stdout
tree = ast.parse(src)
SINGLE = ["create_junction", "create_sink", "create_source", "create_mass_storage", "create_ext_grid", "create_heat_exchanger",
          "create_pipe_from_parameters", "create_valve", "create_pump", "create_circ_pump_const_pressure",
          "create_circ_pump_const_mass_flow", "create_compressor", "create_pressure_control", "create_flow_control", "create_heat_consumer"]


def canon(v):
    if v is None:
        return "null"
    if isinstance(v, bool):
        return "True" if v else "False"
    if isinstance(v, (int, float)):
        if isinstance(v, float) and math.isinf(v):
            return "inf"
        return repr(float(v))
    return str(v)


out = {}
for node in tree.body:
    if isinstance(node, ast.FunctionDef) and node.name in SINGLE:
        args = node.args
        names = [a.arg for a in args.args]
        defaults = args.defaults
        d = {}
        for name, dv in zip(names[len(names) - len(defaults):], defaults):
            try:
                val = ast.literal_eval(dv)
            except Exception:
                txt = ast.unparse(dv)
                val = float("inf") if txt == "np.inf" else None if txt == "None" else txt
            if name in ("index", "name", "geodata", "check_controllability"):
                continue
            d[name] = canon(val)
        out[node.name] = d
with open("/verif/spec/PPDefaults.tla", "w") as f:
    f.write("------------------------------ MODULE PPDefaults ------------------------------\n")
    f.write("(* Documented defaults of the create functions: transcribed from the signatures of create.py at the baseline *)\n")
    f.write("(* commit b307031 by tools/gen_defaults.py (numbers as canonical float text, None as \"null\").  C16 compares   *)\n")
    f.write("(* what a call with the optional arguments omitted stores in the table with these values.                   *)\n")
    f.write("Defaults == [\n")
    rows = []
    for fn, d in out.items():
        rows.append("  %s |-> [%s]" % (fn, ", ".join('%s |-> "%s"' % (k, v) for k, v in d.items())))
    f.write(",\n".join(rows))
    f.write("]\n=============================================================================\n")
print({k: len(v) for k, v in out.items()})
