#!/bin/bash
# detect_batch.sh <parallelism> <file with lines: seed_id prop [prop...]> : run seedtest.sh for each line
PAR=$1; LIST=$2
cat $LIST | xargs -P $PAR -L 1 /verif/tools/seedtest.sh > /tmp/scratch/detect_$(basename $LIST).log 2>&1
