#!/bin/bash
# seedtest.sh <seed_id> <prop> [<prop> ...] : run the quick checks against a scratch worktree carrying the seeded change.
# Nothing in /repo or /verif/evidence is touched. Result lines are appended to /verif/seeded/<seed_id>/detect.log
set -u
ID=$1; shift
SD=/verif/seeded/$ID
WT=/tmp/wt/seedtest_$ID
OUT=/tmp/scratch/seedrun_$ID
rm -rf $OUT; mkdir -p $OUT
git -C /repo worktree remove --force $WT >/dev/null 2>&1
git -C /repo worktree add --detach $WT HEAD >/dev/null 2>&1 || { echo "worktree failed"; exit 2; }
P=$SD/patch.diff; [ -f $SD/patch_rebased.diff ] && P=$SD/patch_rebased.diff
if ! git -C $WT apply $P 2>/dev/null; then
  if ! git -C $WT apply --3way $P >/dev/null 2>&1; then echo "$ID: patch does not apply on current HEAD" | tee -a $SD/detect.log; git -C /repo worktree remove --force $WT; exit 3; fi
fi
[ -n "${APPEND:-}" ] || : > $SD/detect.log
for PROP in "$@"; do
  ( cd /verif && PYTHONPATH=$WT/src VERIF_EVID_DIR=$OUT/evidence VERIF_REPLAY_DIR=$OUT/replays timeout 3600 ./check $PROP --tier quick > $OUT/$PROP.out 2>&1; echo "exit=$?" >> $OUT/$PROP.out )
  RC=$(grep -o "exit=[0-9]*" $OUT/$PROP.out | tail -1)
  NV=$(grep -c "^VIOLATION" $OUT/$PROP.out)
  echo "$ID $PROP $RC violations=$NV $(grep '^VIOLATION' $OUT/$PROP.out | head -1 | sed 's/replay=[^ ]* //' | cut -c1-160)" | tee -a $SD/detect.log
done
git -C /repo worktree remove --force $WT >/dev/null 2>&1
rm -rf $OUT
