#!/bin/bash
# confirm_seed.sh <src_dir_with_patchN.diff/demoN.py> <N> <seed_id>
# Confirms a seeded change independently in a scratch worktree: patch applies, full suite passes with it,
# demo fails with it and passes without it.  Writes /verif/seeded/<seed_id>/{patch.diff,demo.py,confirm.log}
set -u
SRC=$1; N=$2; ID=$3
WT=/tmp/wt/confirm_$ID
OUT=/verif/seeded/$ID
mkdir -p $OUT
cp $SRC/patch$N.diff $OUT/patch.diff
cp $SRC/demo$N.py $OUT/demo.py
git -C /repo worktree remove --force $WT >/dev/null 2>&1
git -C /repo worktree add --detach $WT ${BASE:-HEAD} >/dev/null 2>&1 || { echo "worktree failed"; exit 2; }
cd $WT
{
echo "== demo on clean tree"
PYTHONPATH=$WT/src /venv/bin/python $OUT/demo.py > $OUT/demo_clean.out 2>&1; echo "demo_clean_exit=$?"
tail -3 $OUT/demo_clean.out
echo "== apply"
git apply $OUT/patch.diff; echo "apply_exit=$?"
echo "== demo with patch"
PYTHONPATH=$WT/src /venv/bin/python $OUT/demo.py > $OUT/demo_patched.out 2>&1; echo "demo_patched_exit=$?"
tail -3 $OUT/demo_patched.out
echo "== suite with patch"
PYTHONPATH=$WT/src /venv/bin/python -m pytest -q -p no:cacheprovider --timeout=900 -n 6 src/pandapipes/test 2>&1 | tail -3
} > $OUT/confirm.log 2>&1
cd /
git -C /repo worktree remove --force $WT >/dev/null 2>&1
rm -f $OUT/demo_clean.out $OUT/demo_patched.out
cat $OUT/confirm.log | grep -E "exit=|passed|failed"
