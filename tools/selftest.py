#!/venv/bin/python
"""Self-test of the binding (DESIGN 4): take traces recorded from the real code that the trace specifications accept,
corrupt one logged field at a time, and show that TLC rejects the corrupted trace with the expected clause.
Also: remove the hook events from a solver trace.  Prints one line per experiment; exit 0 iff all behave as expected."""
import copy, json, os, sys
sys.path.insert(0, os.path.dirname(os.path.dirname(os.path.abspath(__file__))))
os.environ.setdefault("PANDAPIPES_VERIF", "1")
from harness import c04, c05, c14, c12, pf, netio, core, tlc, ref, c17, edit

ok = True


def expect(name, fails, clause):
    global ok
    got = sorted({cl[0] for f in fails for cl in f["clauses"]})
    good = (clause in got) if clause else (got == [])
    ok = ok and good
    print("%-58s expected %-34s got %s  %s" % (name, clause or "(accepted)", got, "OK" if good else "UNEXPECTED"))


# ---- Trace_PF
an = {"J": [dict(lab=1, svc=True), dict(lab=2, svc=True), dict(lab=3, svc=True)],
      "E": [dict(tbl="pipe", lab=1, a=1, b=2, et="", svc=True, ca=True, cj=0, typ="", sec=1),
            dict(tbl="valve", lab=1, a=2, b=3, et="ju", svc=False, ca=True, cj=0, typ="", sec=1)],
      "N": [dict(tbl="ext_grid", lab=1, j=1, svc=True, typ="pt"), dict(tbl="sink", lab=1, j=2, svc=True, typ="")]}
base = pf.run_case_prune({"id": "t", "an": an, "opts": c04.PF_OPTS, "check": ["C04", "C01", "C03"], "prune": True})
expect("Trace_PF: untouched recorded case", c04.validate([base])[1], None)
c = copy.deepcopy(base); c["net"]["J"][1]["p"] = netio.NAN
expect("Trace_PF: supplied junction's pressure logged as NaN", c04.validate([c])[1], "C04.junction")
c = copy.deepcopy(base); c["net"]["J"][2]["p"] = [0, 5000, 0]
expect("Trace_PF: unsupplied junction's pressure logged as number", c04.validate([c])[1], "C04.junction")
c = copy.deepcopy(base); c["net"]["E"][0]["mf"] = [0, c["net"]["E"][0]["mf"][1], c["net"]["E"][0]["mf"][2] + 5000]
expect("Trace_PF: pipe mass flow off by 5e-6 kg/s", c04.validate([c])[1], "C01.junction_balance")
c = copy.deepcopy(base); c["net"]["N"][1]["m"] = [0, 99, 0]
expect("Trace_PF: sink result differs from mdot*scaling", c04.validate([c])[1], "C03.load")
c = copy.deepcopy(base); c["pnet"]["J"][0]["p"] = [0, 4999, 0]
expect("Trace_PF: pruned net's pressure differs", c04.validate([c])[1], "C04.prune_junction")

# ---- Trace_Solver (hook events)
from harness import hist as H
cases = c05.replay_history({"id": "s", "net": "gas", "hist": [{"op": "run", "mode": "hydraulics", "budget": "ample", "method": "constant",
                                                                 "tols": "default", "matrix": "plain", "expect": "returned"}]})
expect("Trace_Solver: untouched recorded call", c05.validate(cases)[1], None)
c = copy.deepcopy(cases[0]); c["events"] = [e for e in c["events"] if e["ev"] != "iter"]
expect("Trace_Solver: hook iteration events removed", c05.validate([c])[1], "C05.iteration_count")
c = copy.deepcopy(cases[0]); last = [e for e in c["events"] if e["ev"] == "iter"][-1]; last["errs"][0] = c05.TOLRANK + 5
expect("Trace_Solver: last error above tolerance but converged", c05.validate([c])[1], "C05.converged_outside_tolerance")
c = copy.deepcopy(cases[0]); c["flag_converged"] = False
expect("Trace_Solver: returned but flag logged False", c05.validate([c])[1], "C05.flag_false_after_return")

# ---- Trace_Options
case = c14.replay_hist({"id": "o", "numba": True, "hist": [{"op": "reset", "kv": {"iter": "a"}}, {"op": "call", "kv": {"max_iter_hyd": "b"}}]})
expect("Trace_Options: untouched recorded history", c14.validate([case])[1], None)
c = copy.deepcopy(case); c["events"][1]["inforce"]["max_iter_therm"] = "d"
expect("Trace_Options: stage limit not taken from user iter", c14.validate([c])[1], "C14.resolve")
c = copy.deepcopy(case); c["events"][1]["user"]["max_iter_hyd"] = "a"
expect("Trace_Options: user options changed by the call", c14.validate([c])[1], "C14.user_layer")

# ---- Trace_Ref (exact reference)
s = {"p0": 10000000, "p0s": [10000000], "chords": [],
     "nodes": [{"par": 0, "kind": "", "rev": False, "N": 0, "zeta": 0, "sec": 1, "h": 1, "d": 0, "fd": 1, "te": 1, "dT": 0},
               {"par": 1, "kind": "pipe", "rev": False, "N": 320, "zeta": 2, "sec": 2, "h": 2, "d": 2, "fd": 1, "te": 1, "dT": 0}],
     "hm": {"1": 0, "2": 10, "3": -20}, "pamb": {"1": 1013250, "2": 1012049, "3": 1015655}}
rc = ref.run_case({"id": "r", "s": s})
expect("Trace_Ref: untouched designed scenario", ref.validate([rc])[1], None)
c = copy.deepcopy(rc); c["obs"]["nodes"][1]["p"][1] += 40
expect("Trace_Ref: junction pressure off by 4e-5 bar", ref.validate([c])[1], "REF.junction_pressure")
c = copy.deepcopy(rc); c["s"]["nodes"][1]["zeta"] = 3
expect("Trace_Ref: scenario's loss coefficient altered after the run", ref.validate([c])[1], "REF.end_pressure")

# ---- Trace_Edit
ec = edit.replay({"id": "e", "base": 1, "hist": [{"op": "reindex", "tbl": "junction", "lk": [[0, 7]]}]})
expect("Trace_Edit: untouched recorded reindex", [f for f in c17.validate([ec])[1]], None)
c = copy.deepcopy(ec); [e for e in c["events"][0]["post"]["E"] if e["tbl"] == "valve" and e["lab"] == 2][0]["b"] = 7
expect("Trace_Edit: pipe-valve's pipe label translated like a junction", c17.validate([c])[1], "C17.relabel_mismatch")

# ---- Trace_Mix (enthalpy balance with a temperature-dependent heat capacity)
from harness import mix, multictl, stdtype, transient as TR, c13
mc = mix.run_case({"id": "m", "x": {"streams": [[3, 60000], [2, 20000]], "q": 40000, "mode": "sequential", "rev": True}})
expect("Trace_Mix: untouched recorded mixing scenario", mix.validate([mc])[1], None)
c = copy.deepcopy(mc); c["obs"]["tmix"][1] += 15
expect("Trace_Mix: mix temperature off by 15 mK", mix.validate([c])[1], "C10.mixing_not_energy_conserving")
c = copy.deepcopy(mc); c["obs"]["tout"][1] += 20
expect("Trace_Mix: exchanger outlet off by 20 mK", mix.validate([c])[1], "C11.duty_inconsistent")

# ---- Trace_MultiCtl (multi-energy control loop)
mcase = multictl.run_case({"id": "c", "ctrls": [{"kind": "SETS", "level": 0, "order": 0}, {"kind": "G2G", "level": 0, "order": 1},
                                                 {"kind": "P2G", "level": 1, "order": 0}]})
expect("Trace_MultiCtl: untouched recorded control run", multictl.validate([mcase])[1], None)
c = copy.deepcopy(mcase); c["written"][0]["val"] = [c["written"][0]["val"][0] + 1, c["written"][0]["val"][1]]
expect("Trace_MultiCtl: written value altered", multictl.validate([c])[1], "C20.written_value")
c = copy.deepcopy(mcase); c["nets"][2]["coupled"] = "0000"
expect("Trace_MultiCtl: member net's results not those of its inputs", multictl.validate([c])[1], "C20.member_net_differs_from_standalone")
c = copy.deepcopy(mcase); c["ctrls"][0]["order"] = 2        # the setter now comes after the coupling: the stale value would be legitimate
c["written"][1 if c["written"][0]["kind"] != "G2G" else 0]["val"] = [1, 7]
expect("Trace_MultiCtl: stale conversion is not judged if the writer comes later", [f for f in multictl.validate([c])[1] if any(cl[1] == "G2G" for cl in f["clauses"])], None)

# ---- Trace_StdType (standard-type library)
sc = stdtype.replay({"id": "s", "hist": [{"op": "create_pipe", "name": "T1", "k": 15, "u": -1, "ok": True},
                                           {"op": "create_pipe", "name": "T1", "k": -1, "u": -1, "ok": True}]})
expect("Trace_StdType: untouched recorded history", stdtype.validate([sc])[1], None)
c = copy.deepcopy(sc); c["events"][0]["post"]["lib"][0][2] = 15; c["events"][1]["post"]["lib"][0][2] = 15
expect("Trace_StdType: override written into the library", stdtype.validate([c])[1], "STD.library_changed")
c = copy.deepcopy(sc); c["events"][1]["post"]["pipes"][1][2] = 15
expect("Trace_StdType: second pipe carries the first pipe's override", stdtype.validate([c])[1], "STD.row_differs_from_type")

# ---- Trace_TS (transient series)
ts, _ = TR.run_case({"id": "t", "net": "tree", "profile": ["A", "B", "A"], "steps": [1, 2, 3], "cod": False})
expect("Trace_TS: untouched recorded transient series", c13.validate([ts])[1], None)
c = copy.deepcopy(ts); c["steps"][1]["logged"] = "ffff"
expect("Trace_TS: a step's hydraulic digest altered", c13.validate([c])[1], "C13.step_differs_from_standalone")
c = copy.deepcopy(ts); c["steps"][0]["pre_th"] = "ffff"
expect("Trace_TS: first step differs in the shorter series", c13.validate([c])[1], "C13.step_depends_on_later_steps")

# ---- Trace_Edit: continuous index over all tables
ec = edit.replay({"id": "e2", "base": 1, "hist": [{"op": "continuous_all", "tbl": "all", "start": 3}]})
expect("Trace_Edit: untouched continuous index over all tables", c17.validate([ec])[1], None)
c = copy.deepcopy(ec); [e for e in c["events"][0]["post"]["E"] if e["tbl"] == "pipe"][0]["rtag"] = "xx"
expect("Trace_Edit: a result row did not follow its pipe", c17.validate([c])[1], "C17.relabel_mismatch")

print("SELFTEST", "PASSED" if ok else "FAILED")
sys.exit(0 if ok else 1)
