#!/bin/bash
# confirm_batch.sh <tag> [<tag> ...] : confirm both changes of each sub-agent output dir /tmp/seedout/<tag>/ (3 in parallel)
for T in "$@"; do for N in 1 2; do echo "$T $N"; done; done | xargs -P 3 -L 1 bash -c 'T=$0; N=$1; [ -f /tmp/seedout/$T/patch$N.diff ] && /verif/tools/confirm_seed.sh /tmp/seedout/$T $N ${T}_$N > /tmp/scratch/confirm_${T}_$N.out 2>&1; cp /tmp/seedout/$T/notes$N.md /verif/seeded/${T}_$N/notes.md 2>/dev/null; true'
