#!/bin/bash
# runall.sh [tier] [parallelism] [props...] : run the registered checks in /verif against /repo, logs under /tmp/scratch/runall/
TIER=${1:-quick}; PAR=${2:-2}; shift 2 2>/dev/null
PROPS=${@:-C01 C02 C03 C04 C05 C06 C07 C08 C09 C10 C11 C12 C13 C14 C15 C16 C17 C18 C19 C20}
mkdir -p /tmp/scratch/runall
cd /verif
echo $PROPS | tr ' ' '\n' | xargs -P $PAR -I{} bash -c 'S=$(date +%s); ./check {} --tier '$TIER' > /tmp/scratch/runall/{}.out 2>&1; echo "{} exit=$? $(( $(date +%s) - S ))s $(grep -c ^VIOLATION /tmp/scratch/runall/{}.out) violations"'
